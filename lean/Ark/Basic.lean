/-
  Ark.Basic — shared vocabulary of the model: entities, values, panic classes, the
  state+panic monad, association lists (the model of Go maps).

  Core Lean only (the driver links against everything under Ark/Model and Ark/Basic).
-/

namespace Ark

/-- Component payload token. `0` is the zero value of every component type. -/
abbrev Val := Nat

/-- Component ID (0…255). -/
abbrev Comp := Nat

/-- `math.MaxUint32`: used as the generation of reserved pool slots and as "no table". -/
def maxU32 : Nat := 4294967295

/-- An entity handle (`ecs.Entity`): ID and generation. -/
structure Ent where
  id : Nat
  gen : Nat
  deriving DecidableEq, Repr, Inhabited, Hashable

namespace Ent
/-- The reserved zero entity `Entity{}`. -/
def zero : Ent := ⟨0, 0⟩
def isZero (e : Ent) : Bool := e.id == 0
instance : ToString Ent := ⟨fun e => s!"{e.id}.{e.gen}"⟩
end Ent

theorem Ent.beq_iff (a b : Ent) : (a == b) = true ↔ a = b := beq_iff_eq

/-- Classes of panics. The harness maps Go panic messages onto these classes; a Go *runtime*
    panic (index out of range, nil dereference) is class `runtime`. -/
inductive PanicKind
  | locked | deadEntity | alreadyHas | missing | addedAndRemoved | noComponents | noRelations
  | relUnspecified | deadTarget | notRelation | relNotInMask | noRelComponent | relTwice
  | unbalancedUnlock | outOfLocks
  | registryFull | registerLocked | obsRegistered | obsNotRegistered | obsNoCallback | obsNonRelation
  | filterRegistered | filterNotRegistered | filterModify
  | notEmptyWorld | outOfBounds | emitZeroComps | emitDead | emitMissing | emitPredefined
  | queryDone | queryGet | recycleReserved | resource | runtime | other
  deriving DecidableEq, Repr, Inhabited

def PanicKind.name : PanicKind → String
  | .locked => "locked" | .deadEntity => "deadEntity" | .alreadyHas => "alreadyHas"
  | .missing => "missing" | .addedAndRemoved => "addedAndRemoved"
  | .noComponents => "noComponents" | .noRelations => "noRelations"
  | .relUnspecified => "relUnspecified" | .deadTarget => "deadTarget"
  | .notRelation => "notRelation" | .relNotInMask => "relNotInMask"
  | .noRelComponent => "noRelComponent" | .relTwice => "relTwice"
  | .unbalancedUnlock => "unbalancedUnlock" | .outOfLocks => "outOfLocks"
  | .registryFull => "registryFull" | .registerLocked => "registerLocked"
  | .obsRegistered => "obsRegistered" | .obsNotRegistered => "obsNotRegistered"
  | .obsNoCallback => "obsNoCallback" | .obsNonRelation => "obsNonRelation"
  | .filterRegistered => "filterRegistered" | .filterNotRegistered => "filterNotRegistered"
  | .filterModify => "filterModify"
  | .notEmptyWorld => "notEmptyWorld" | .outOfBounds => "outOfBounds"
  | .emitZeroComps => "emitZeroComps" | .emitDead => "emitDead" | .emitMissing => "emitMissing"
  | .emitPredefined => "emitPredefined"
  | .queryDone => "queryDone" | .queryGet => "queryGet" | .recycleReserved => "recycleReserved"
  | .resource => "resource" | .runtime => "runtime" | .other => "other"

/-- Result of a world-level operation: Go's panic+recover leaves the mutations made so far in
    place, so a panic carries the state reached. -/
inductive Res (σ α : Type) where
  | ok : α → σ → Res σ α
  | panic : PanicKind → σ → Res σ α

/-- State-and-panic monad. -/
def M (σ α : Type) := σ → Res σ α

namespace M
variable {σ α β : Type}

@[inline] def pure (a : α) : M σ α := fun s => .ok a s
@[inline] def bind (m : M σ α) (f : α → M σ β) : M σ β := fun s =>
  match m s with
  | .ok a s' => f a s'
  | .panic k s' => .panic k s'

instance : Monad (M σ) where
  pure := M.pure
  bind := M.bind

@[inline] def get : M σ σ := fun s => .ok s s
@[inline] def set (s : σ) : M σ Unit := fun _ => .ok () s
@[inline] def modify (f : σ → σ) : M σ Unit := fun s => .ok () (f s)
@[inline] def panic (k : PanicKind) : M σ α := fun s => .panic k s
@[inline] def reads (f : σ → α) : M σ α := fun s => .ok (f s) s
/-- `assert c k` panics with `k` unless `c`. -/
@[inline] def assert (c : Bool) (k : PanicKind) : M σ Unit := fun s =>
  if c then .ok () s else .panic k s

@[simp] theorem pure_apply (a : α) (s : σ) : (Pure.pure a : M σ α) s = .ok a s := rfl
@[simp] theorem bind_apply (m : M σ α) (f : α → M σ β) (s : σ) :
    (m >>= f) s = match m s with | .ok a s' => f a s' | .panic k s' => .panic k s' := rfl
@[simp] theorem get_apply (s : σ) : (get : M σ σ) s = .ok s s := rfl
@[simp] theorem set_apply (s t : σ) : (set t : M σ Unit) s = .ok () t := rfl
@[simp] theorem modify_apply (f : σ → σ) (s : σ) : (modify f : M σ Unit) s = .ok () (f s) := rfl
@[simp] theorem panic_apply (k : PanicKind) (s : σ) : (panic k : M σ α) s = .panic k s := rfl
@[simp] theorem reads_apply (f : σ → α) (s : σ) : (reads f : M σ α) s = .ok (f s) s := rfl
@[simp] theorem assert_apply (c : Bool) (k : PanicKind) (s : σ) :
    (assert c k : M σ Unit) s = if c then .ok () s else .panic k s := rfl

/-- Monadic loop over a list (Go `for _, x := range xs`). -/
def forM' (xs : List α) (f : α → M σ Unit) : M σ Unit :=
  match xs with
  | [] => Pure.pure ()
  | x :: rest => f x >>= fun _ => forM' rest f

end M

def Res.state {σ α : Type} : Res σ α → σ
  | .ok _ s => s
  | .panic _ s => s

/-! ## Association lists: the model of Go maps

`AL κ ν` with functional `find?`/`insert`/`erase`. Keys are kept unique by `insert`
(replace-or-append), so iteration order is insertion order — the model of a Go map must never
depend on it; where the Go code ranges over a map the model folds over the list and a theorem
shows the result is order-independent. -/

abbrev AL (ν : Type) := List (Nat × ν)

namespace AL
variable {ν : Type}

def find? (m : AL ν) (k : Nat) : Option ν :=
  match m with
  | [] => none
  | (k', v) :: rest => if k' = k then some v else find? rest k

def contains (m : AL ν) (k : Nat) : Bool := (find? m k).isSome

def insert (m : AL ν) (k : Nat) (v : ν) : AL ν :=
  match m with
  | [] => [(k, v)]
  | (k', v') :: rest => if k' = k then (k, v) :: rest else (k', v') :: insert rest k v

def erase (m : AL ν) (k : Nat) : AL ν :=
  match m with
  | [] => []
  | (k', v') :: rest => if k' = k then erase rest k else (k', v') :: erase rest k

def mapVals (m : AL ν) (f : ν → ν) : AL ν := m.map fun (k, v) => (k, f v)

def keys (m : AL ν) : List Nat := m.map (·.1)

@[simp] theorem find?_nil (k : Nat) : find? ([] : AL ν) k = none := rfl

theorem find?_insert_self (m : AL ν) (k : Nat) (v : ν) : find? (insert m k v) k = some v := by
  induction m with
  | nil => simp [insert, find?]
  | cons p rest ih =>
    obtain ⟨k', v'⟩ := p
    by_cases h : k' = k <;> simp [insert, find?, h, ih]

theorem find?_insert_ne (m : AL ν) (k k2 : Nat) (v : ν) (h : k2 ≠ k) :
    find? (insert m k v) k2 = find? m k2 := by
  induction m with
  | nil => simp [insert, find?, Ne.symm h]
  | cons p rest ih =>
    obtain ⟨k', v'⟩ := p
    by_cases h1 : k' = k
    · subst h1; simp [insert, find?, Ne.symm h]
    · by_cases h2 : k' = k2
      · subst h2; simp [insert, find?, h1]
      · simp [insert, find?, h1, h2, ih]

theorem find?_erase_self (m : AL ν) (k : Nat) : find? (erase m k) k = none := by
  induction m with
  | nil => rfl
  | cons p rest ih =>
    obtain ⟨k', v'⟩ := p
    by_cases h : k' = k <;> simp [erase, find?, h, ih]

theorem find?_erase_ne (m : AL ν) (k k2 : Nat) (h : k2 ≠ k) :
    find? (erase m k) k2 = find? m k2 := by
  induction m with
  | nil => rfl
  | cons p rest ih =>
    obtain ⟨k', v'⟩ := p
    by_cases h1 : k' = k
    · subst h1; simp [erase, find?, Ne.symm h, ih]
    · by_cases h2 : k' = k2
      · subst h2; simp [erase, find?, h1]
      · simp [erase, find?, h1, h2, ih]

end AL

/-! ## List helpers -/

/-- `xs[i] := v`, or `xs ++ [v]` when `i = xs.length` (Go's "append or overwrite" idiom). -/
def setOrAppend {α : Type} (xs : List α) (i : Nat) (v : α) : List α :=
  if i < xs.length then xs.set i v else xs ++ [v]

def listGetD {α : Type} [Inhabited α] (xs : List α) (i : Nat) : α := xs.getD i default

/-- Insertion sort on naturals (used only to canonicalise output). -/
def sortNat (xs : List Nat) : List Nat := xs.mergeSort (· ≤ ·)

end Ark
