-- This module serves as the root of the `Ark` library.
-- Import modules here that should be built as part of the library.
import Ark.Basic
