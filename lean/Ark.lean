-- Root of the `Ark` library: the model. Proofs, property theorems, generated definitions and
-- audits are separate modules under Ark/ and are built through the library's glob.
import Ark.Basic
import Ark.Model.Ops
import Ark.Model.Stats
