/-
  Driver.Main — line-protocol driver: reads one operation per line on stdin, runs the Lean
  model's executable definitions, prints one canonical outcome line per operation (plus
  nested lines for callbacks and an optional snapshot line).  The Go harness prints the same
  grammar for the real implementation; `check` diffs the two.
-/
import Ark.Model.Ops
import Ark.Model.Stats
import Ark.Model.Codec

open Ark Ark.World

structure Sys where
  w : World := World.init 1024 128
  /-- entity label ↦ handle -/
  labels : AL Ent := []
  /-- labels created since the last `reset` (names and snapshots use only these: `Reset`
      re-issues the same handles) -/
  epoch : List (Nat × Ent) := []
  /-- labels of the previous epoch: usable only by `alive`, until the next creation -/
  oldLabels : AL Ent := []
  /-- component name number ↦ ID, in registration order -/
  comps : AL Nat := []
  queries : AL QueryObj := []
  qFilter : AL Nat := []   -- query label ↦ filter label (for printing values)
  dumps : AL (Dump × AL Ent × List (Nat × Ent)) := []
  snap : Bool := true
  fillers : Nat := 0
  lineNo : Nat := 0

/-- two lower-case hex digits -/
def hex2 (n : Nat) : String :=
  let d := fun (k : Nat) => "0123456789abcdef".toList.getD k '0'
  String.ofList [d (n / 16), d (n % 16)]

/-! ### parsing helpers -/

def numOf (s : String) : Option Nat := (s.drop 1).toString.toNat?

def splitList (s : String) : List String := if s.isEmpty then [] else s.splitOn ","

/-- options `key=value` among tokens -/
def optVal (toks : List String) (key : String) : Option String :=
  toks.findSome? fun t => if t.startsWith (key ++ "=") then some (t.drop (key.length + 1)).toString else none

def hasFlag (toks : List String) (flag : String) : Bool := toks.contains flag

structure CompTok where
  name : Nat
  val : Option Nat := none
  target : Option String := none
  sign : Char := ' '

/-- `[+-]cN[:val][>target]` -/
def parseCompTok (s : String) : Option CompTok :=
  let (sign, s) := if s.startsWith "+" then ('+', (s.drop 1).toString)
                   else if s.startsWith "-" then ('-', (s.drop 1).toString) else (' ', s)
  let (s, target) := match s.splitOn ">" with
    | [a, b] => (a, some b)
    | _ => (s, none)
  let (s, val) := match s.splitOn ":" with
    | [a, b] => (a, b.toNat?)
    | _ => (s, none)
  if !s.startsWith "c" then none else
  match numOf s with
  | none => none
  | some n => some { name := n, val, target, sign }

namespace Sys

def compID (s : Sys) (name : Nat) : Option Nat := AL.find? s.comps name
def compName (s : Sys) (id : Nat) : String :=
  match List.find? (fun (_, i) => i == id) s.comps with
  | some (n, _) => s!"c{n}"
  | none => s!"#{id}"

/-- label of an entity handle (for printing) -/
def entName (s : Sys) (e : Ent) : String :=
  if e == Ent.zero then "z" else
  match List.find? (fun (_, h) => h == e) s.epoch with
  | some (l, _) => s!"e{l}"
  | none => s!"?{e}"

def addLabels (s : Sys) (news : List (Nat × Ent)) : Sys :=
  { s with labels := news.foldl (fun m (l, e) => AL.insert m l e) s.labels, epoch := s.epoch ++ news,
           oldLabels := [] }

/-- entity for a label token (`z` = zero entity) -/
def entOf (s : Sys) (tok : String) : Option Ent :=
  if tok == "z" then some Ent.zero else
  match numOf tok with
  | none => none
  | some l => AL.find? s.labels l

def relOf (s : Sys) (ct : CompTok) : Option (Option RelID) :=
  match ct.target with
  | none => some none
  | some t =>
    match s.entOf t, s.compID ct.name with
    | some e, some c => some (some ⟨c, e⟩)
    | _, _ => none

/-- parse `c3>e2,c4>z` -/
def relList (s : Sys) (str : String) : Option (List RelID) :=
  (splitList str).foldl (fun acc tok =>
    match acc, parseCompTok tok with
    | some acc, some ct =>
      match s.relOf ct with
      | some (some r) => some (acc ++ [r])
      | _ => none
    | _, _ => none) (some [])

def compList (s : Sys) (str : String) : Option (List Nat) :=
  (splitList str).foldl (fun acc tok =>
    match acc, parseCompTok tok with
    | some acc, some ct =>
      match s.compID ct.name with
      | some c => some (acc ++ [c])
      | none => none
    | _, _ => none) (some [])

structure CompArgs where
  ids : List Nat := []
  vals : List (Nat × Nat) := []
  rels : List RelID := []
  rem : List Nat := []

/-- parse the component tokens of an entity operation -/
def compArgs (s : Sys) (toks : List String) : Option CompArgs :=
  toks.foldl (fun acc tok =>
    match acc with
    | none => none
    | some a =>
      if tok.startsWith "r" then
        -- `rN>target`: an additional relation target without a component
        match parseCompTok ("c" ++ (tok.drop 1).toString) with
        | none => none
        | some ct =>
          match ct.target, s.relOf ct with
          | some _, some (some r) => some { a with rels := a.rels ++ [r] }
          | _, _ => none
      else
      if !(tok.startsWith "c" || tok.startsWith "+c" || tok.startsWith "-c") then some a else
      match parseCompTok tok with
      | none => none
      | some ct =>
        match s.compID ct.name with
        | none => none
        | some c =>
          if ct.sign == '-' then some { a with rem := a.rem ++ [c] } else
          match s.relOf ct with
          | none => none
          | some r =>
            some { a with ids := a.ids ++ [c]
                          vals := match ct.val with | some v => a.vals ++ [(c, v)] | none => a.vals
                          rels := match r with | some r => a.rels ++ [r] | none => a.rels })
    (some {})

def pathOf (tok : String) : Path :=
  if tok == "u" then .unsafe_ else if tok == "m" then .map1 else .typed

/-! ### printing -/

def fmtComps (s : Sys) (comps : List (Nat × Nat)) (targets : List (Nat × Ent)) : String :=
  ",".intercalate (comps.map fun (c, v) =>
    let base := s!"{s.compName c}={v}"
    match List.find? (fun (c', _) => c' == c) targets with
    | some (_, t) => base ++ ">" ++ s.entName t
    | none => base)

/-- `eN{c0=5,c3=7>e0}` for an alive entity, read from the model -/
def fmtEntity (s : Sys) (e : Ent) (only : Option (List Nat) := none) : String :=
  let w := s.w
  let (t, row) := w.index e.id
  let T := w.tbl t
  let ids := match only with | some l => l | none => T.ids
  let comps := ids.map fun c => (c, (T.getComp c row).getD 0)
  let targets := ((T.ids.zip T.targets).zip T.isRel).filterMap fun ((c, tg), r) =>
    if r && ids.contains c then some (c, tg) else none
  s.entName e ++ "{" ++ s.fmtComps comps targets ++ "}"

def fmtPanic (k : Option PanicKind) : String :=
  match k with | none => "ok" | some k => k.name

def fmtLog (s : Sys) : LogEv → String
  | .cb o e => s!"  cb o{o} {s.entName e}"
  | .look al lk comps targets =>
    s!"  look alive={if al then 1 else 0} locked={if lk then 1 else 0} " ++ s.fmtComps comps targets
  | .q f total occ => s!"  q f{f} total={total} occ={occ}"
  | .act name r => s!"  act {name} {fmtPanic r}"
  | .fn e lk comps => s!"  fn {s.entName e} locked={if lk then 1 else 0} " ++ s.fmtComps comps []

def snapshot (s : Sys) : String :=
  "  S " ++ " ".intercalate ((s.epoch.filter fun (_, e) => s.w.alive e).map fun (_, e) => s.fmtEntity e)

end Sys

/-! ### executing one line -/

/-- run a model operation on the system's world; returns the new system and result -/
def Sys.run {α : Type} (s : Sys) (m : W α) : Sys × Except PanicKind α :=
  match m s.w with
  | .ok a w => ({ s with w }, .ok a)
  | .panic k w => ({ s with w }, .error k)

def emitResult (s : Sys) (res : String) : IO Sys := do
  IO.println s!"#{s.lineNo} {res}"
  for ev in s.w.log.reverse do
    IO.println (s.fmtLog ev)
  let s := { s with w := { s.w with log := [] } }
  if s.snap then IO.println s.snapshot
  pure s

def resStr {α : Type} (r : Except PanicKind α) (f : α → String := fun _ => "") : String :=
  match r with
  | .ok a => let x := f a; if x.isEmpty then "ok" else "ok " ++ x
  | .error k => "panic " ++ k.name

def fmtVisits (s : Sys) (ids : List Nat) (vs : List Visit) : String :=
  ",".intercalate (vs.map fun v => s.fmtEntity v.e (some ids))

def parseEvent (tok : String) : Option Nat :=
  match tok with
  | "create" => some Ev.onCreateEntity | "remove" => some Ev.onRemoveEntity
  | "add" => some Ev.onAddComponents | "rem" => some Ev.onRemoveComponents
  | "set" => some Ev.onSetComponents | "addrel" => some Ev.onAddRelations
  | "remrel" => some Ev.onRemoveRelations
  | _ => tok.toNat?

def parseProbe (tok : String) : Option Probe :=
  match tok.splitOn ":" with
  | ["look"] => some .look
  | ["trynew"] => some .tryNew
  | ["q", f] => (numOf f).map .query
  | ["unreg", o] => (numOf o).map .unreg
  | ["reg", o] => (numOf o).map .reg
  | _ => none

def step (s : Sys) (line : String) : IO Sys := do
  let s := { s with lineNo := s.lineNo + 1 }
  let toks := (line.trimAscii.toString.splitOn " ").filter (· ≠ "")
  let skip := emitResult s "skip"
  match toks with
  | [] => pure { s with lineNo := s.lineNo - 1 }
  | "world" :: cap :: rel :: rest =>
    let maxc := match rest with | m :: _ => m.toNat?.getD 256 | [] => 256
    let snap := !(hasFlag rest "nosnap")
    let s' : Sys := { w := World.init (cap.toNat?.getD 1024) (rel.toNat?.getD 128) maxc, snap, lineNo := s.lineNo }
    emitResult s' "ok"
  | ["rebuild", cap, rel] =>
    -- a NEW world with the same component types registered in the same order; dumps survive,
    -- every handle, filter, observer and query of the old world is forgotten
    let w0 := World.init (cap.toNat?.getD 1024) (rel.toNat?.getD 128) s.w.maxComps
    let w1 := s.w.kinds.foldl (fun (w : World) k => (registerComponent k w).state) w0
    emitResult { s with w := w1, labels := [], epoch := [], oldLabels := [], queries := [], qFilter := [] } "ok"
  | ["rebuild", cap, rel, "rot"] =>
    -- as `rebuild`, but the types are registered in rotated order (the first one last): every component
    -- gets another ID; the observer objects survive, un-registered, with their components renamed
    let K := s.w.kinds.length
    let f := fun (i : Nat) => if K ≤ 1 then i else (i + K - 1) % K
    let kinds' := if K ≤ 1 then s.w.kinds else s.w.kinds.drop 1 ++ s.w.kinds.take 1
    let w0 := World.init (cap.toNat?.getD 1024) (rel.toNat?.getD 128) s.w.maxComps
    let w1 := kinds'.foldl (fun (w : World) k => (registerComponent k w).state) w0
    let objs' : AL ObsObj := s.w.obs.objs.map fun (l, o) =>
      (l, { spec := { o.spec with comps := o.spec.comps.map f, with_ := o.spec.with_.map f,
                                  without := o.spec.without.map f } })
    let w1 := { w1 with obs := { w1.obs with objs := objs' } }
    emitResult { s with w := w1, comps := s.comps.map (fun (n, i) => (n, f i)), labels := [], epoch := [],
                        oldLabels := [], queries := [], qFilter := [] } "ok"
  | ["reg", name, kind, size] =>
    match numOf name with
    | none => skip
    | some n =>
      -- a type that is registered already keeps its ID (`ComponentID` looks it up; nothing is registered,
      -- also on a locked world)
      match AL.find? s.comps n with
      | some id => emitResult s s!"ok {id}"
      | none =>
      let sz := size.toNat?.getD 8
      let k : CompKind := { isRel := kind == "rel", zst := sz == 0, size := sz }
      let (s, r) := s.run (registerComponent k)
      let s := match r with | .ok id => { s with comps := AL.insert s.comps n id } | .error _ => s
      emitResult s (resStr r fun id => toString id)
  | ["fill", n] =>
    let cnt := n.toNat?.getD 0
    let mut s := s
    let mut last := "ok"
    for _ in List.range cnt do
      let (s', r) := s.run (registerComponent { size := s.fillers + 1 })
      -- a rejected registration is retried with the same filler type
      s := match r with | .ok _ => { s' with fillers := s'.fillers + 1 } | .error _ => s'
      last := resStr r fun _ => ""
    emitResult s last
  | "new" :: lbl :: path :: rest =>
    match numOf lbl, s.compArgs rest with
    | some l, some a =>
      let (s, r) := s.run (opNewEntity probe (Sys.pathOf path) a.ids a.vals a.rels)
      let s := match r with | .ok e => s.addLabels [(l, e)] | .error _ => s
      emitResult s (resStr r fun e => s!"e{l}={e}")
    | _, _ => skip
  | ["new0", lbl] =>
    match numOf lbl with
    | some l =>
      let (s, r) := s.run (opNewEntity0 probe)
      let s := match r with | .ok e => s.addLabels [(l, e)] | .error _ => s
      emitResult s (resStr r fun e => s!"e{l}={e}")
    | none => skip
  | "add" :: e :: path :: rest =>
    match s.entOf e, s.compArgs rest with
    | some e, some a =>
      let (s, r) := s.run (opAdd probe (Sys.pathOf path) e a.ids a.vals a.rels)
      emitResult s (resStr r)
    | _, _ => skip
  | "rem" :: e :: path :: rest =>
    match s.entOf e, s.compArgs rest with
    | some e, some a =>
      let (s, r) := s.run (opRemove probe (Sys.pathOf path) e a.ids)
      emitResult s (resStr r)
    | _, _ => skip
  | "xchg" :: e :: path :: rest =>
    match s.entOf e, s.compArgs rest with
    | some e, some a =>
      let (s, r) := s.run (opExchange probe (Sys.pathOf path) e a.ids a.vals a.rem a.rels)
      emitResult s (resStr r)
    | _, _ => skip
  | "set" :: e :: _path :: rest =>
    match s.entOf e, s.compArgs rest with
    | some e, some a =>
      let (s, r) := s.run (opSet probe e a.ids a.vals)
      emitResult s (resStr r)
    | _, _ => skip
  | ["getrel", e, _path, c] =>
    match s.entOf e, s.compList c with
    | some e, some [c] =>
      -- `storage.getRelation`: alive check, component check, then the column's target (zero for non-relations)
      if !s.w.alive e then emitResult s "panic deadEntity"
      else
        let (t, _) := s.w.index e.id
        if !(s.w.tbl t).has c then emitResult s "panic missing"
        else emitResult s s!"ok {s.entName ((s.w.tbl t).getRelation c)}"
    | _, _ => skip
  | "setrel" :: e :: path :: rest =>
    match s.entOf e, s.compArgs rest with
    | some e, some a =>
      -- `mapper=` lists the mapper's components for typed paths
      let mids := match optVal rest "mapper" with
        | some m => (s.compList m).getD a.ids
        | none => a.ids
      let (s, r) := s.run (opSetRelations probe (Sys.pathOf path) e mids a.rels)
      emitResult s (resStr r)
    | _, _ => skip
  | ["del", e] =>
    match s.entOf e with
    | some e =>
      let (s, r) := s.run (opRemoveEntity probe e)
      emitResult s (resStr r)
    | none => skip
  | ["copy", lbl, e] =>
    match numOf lbl, s.entOf e with
    | some l, some e =>
      let (s, r) := s.run (opCopyEntity probe e)
      let s := match r with | .ok ne => s.addLabels [(l, ne)] | .error _ => s
      emitResult s (resStr r fun ne => s!"e{l}={ne}")
    | _, _ => skip
  | ["alive", e] =>
    match (s.entOf e).orElse fun _ => (numOf e).bind (AL.find? s.oldLabels) with
    | some e => emitResult s s!"ok {if s.w.alive e then 1 else 0}"
    | none => skip
  | "filter" :: lbl :: kind :: rest =>
    match numOf lbl with
    | none => skip
    | some l =>
      let ids := (optVal rest "with").bind s.compList |>.getD []
      let wo := (optVal rest "without").bind s.compList
      match (optVal rest "rel").map s.relList with
      | some none => skip
      | relsOpt =>
        let rels := (relsOpt.bind id).getD []
        let f : Filter := { mask := Mask.ofList ids }
        let f := match wo with | some l => if l.isEmpty then f else f.withoutList l | none => f
        let f := if hasFlag rest "excl" then f.exclusive else f
        let typed := kind != "unsafe"
        let fo : FilterObj := { filter := f, ids, rels, typed }
        let (s, r) := s.run (if typed then preCheckTyped f.mask rels else pure ())
        let s := match r with
          | .ok _ => { s with w := { s.w with filters := AL.insert s.w.filters l fo } }
          | .error _ => s
        emitResult s (resStr r)
  | ["freg", f] =>
    match numOf f with
    | some l => if (AL.find? s.w.filters l).isNone then skip else
      let (s, r) := s.run (opFilterRegister l)
      emitResult s (resStr r)
    | none => skip
  | ["funreg", f] =>
    match numOf f with
    | some l => if (AL.find? s.w.filters l).isNone then skip else
      let (s, r) := s.run (opFilterUnregister l)
      emitResult s (resStr r)
    | none => skip
  | "query" :: f :: rest =>
    match (numOf f).bind (AL.find? s.w.filters), ((optVal rest "rel").map s.relList).getD (some []) with
    | some fo, some extra =>
      -- Count and EntityAt on an open query, then a complete iteration
      let (s, r) := s.run (do
        let q ← qOpen fo extra
        let w ← M.get
        let cnt := qCount w q
        let ats := match cnt with
          | some n => (List.range n).map fun i => ((qEntityAt w q i).bind id).getD Ent.zero
          | none => []
        let (_, vs) ← drainFrom q (drainFuel w)
        pure (cnt, ats, vs))
      emitResult s (resStr r fun (cnt, ats, vs) =>
        s!"n={cnt.getD 0} at={",".intercalate (ats.map s.entName)} visit={fmtVisits s fo.ids vs}")
    | _, _ => skip
  | "qopen" :: q :: f :: rest =>
    match numOf q, (numOf f).bind (fun l => (AL.find? s.w.filters l).map fun fo => (l, fo)),
          ((optVal rest "rel").map s.relList).getD (some []) with
    | some ql, some (fl, fo), some extra =>
      let (s, r) := s.run (qOpen fo extra)
      let s := match r with
        | .ok qo => { s with queries := AL.insert s.queries ql qo, qFilter := AL.insert s.qFilter ql fl }
        | .error _ => s
      emitResult s (resStr r)
    | _, _, _ => skip
  | ["qnext", q] =>
    match (numOf q).bind fun l => (AL.find? s.queries l).map fun qo => (l, qo) with
    | some (l, qo) =>
      let (s, r) := s.run (qNext qo)
      let s := match r with | .ok (qo', _) => { s with queries := AL.insert s.queries l qo' } | .error _ => s
      let ids := ((AL.find? s.qFilter l).bind (AL.find? s.w.filters)).map (·.ids) |>.getD []
      emitResult s (resStr r fun (qo', more) =>
        if more then "1 " ++ s.fmtEntity ((qEntity s.w qo').getD Ent.zero) (some ids) else "0")
    | none => skip
  | ["qget", q] =>
    match (numOf q).bind fun l => (AL.find? s.queries l).map fun qo => (l, qo) with
    | some (l, qo) =>
      let ids := ((AL.find? s.qFilter l).bind (AL.find? s.w.filters)).map (·.ids) |>.getD []
      match qEntity s.w qo with
      | some e => emitResult s ("ok " ++ s.fmtEntity e (some ids))
      | none => emitResult s "panic queryGet"
    | none => skip
  | ["qgetc", q, c] =>
    match (numOf q).bind fun l => (AL.find? s.queries l).map fun qo => (l, qo) with
    | some (l, qo) =>
      let unsafeQ := ((AL.find? s.qFilter l).bind (AL.find? s.w.filters)).map (fun fo => !fo.typed) |>.getD false
      match unsafeQ, (numOf c).bind s.compID with
      | true, some cid =>
        -- a missing column is a nil dereference in both builds; the cursor is valid (generator)
        match qo.cur with
        | some t =>
          if qo.table < 0 then emitResult s "panic runtime" else
          match (s.w.tbl t).getComp cid qo.index with
          | some v => emitResult s s!"ok {v}"
          | none => emitResult s "panic runtime"
        | none => emitResult s "panic runtime"
      | _, _ => skip
    | none => skip
  | ["qclose", q] =>
    match (numOf q).bind fun l => (AL.find? s.queries l).map fun qo => (l, qo) with
    | some (l, qo) =>
      let (s, r) := s.run (qClose qo)
      let s := match r with | .ok qo' => { s with queries := AL.insert s.queries l qo' } | .error _ => s
      emitResult s (resStr r)
    | none => skip
  | ["qcount", q] =>
    match (numOf q).bind (AL.find? s.queries) with
    | some qo =>
      match qCount s.w qo with
      | some n => emitResult s s!"ok {n}"
      | none => emitResult s "panic runtime"
    | none => skip
  | ["qat", q, i] =>
    match (numOf q).bind (AL.find? s.queries) with
    | some qo =>
      match qEntityAt s.w qo (i.toNat?.getD 0) with
      | some (some e) => emitResult s s!"ok {s.entName e}"
      | some none => emitResult s "panic outOfBounds"
      | none => emitResult s "panic runtime"
    | none => skip
  | "newb" :: lbl :: cnt :: path :: fn :: rest =>
    match numOf lbl, cnt.toNat?, s.compArgs rest with
    | some l, some n, some a =>
      let (s, r) := s.run (opNewBatch probe (Sys.pathOf path) n a.ids a.vals a.rels (fn == "fn"))
      match r with
      | .ok (t, start) =>
        let T := s.w.tbl t
        let news := (List.range n).map fun i => (l + i, T.getEntity (start + i))
        let s := s.addLabels news
        emitResult s ("ok " ++ " ".intercalate (news.map fun (l, e) => s!"e{l}={e}"))
      | .error k => emitResult s ("panic " ++ k.name)
    | _, _, _ => skip
  | ["new0b", lbl, cnt, fn] =>
    match numOf lbl, cnt.toNat? with
    | some l, some n =>
      let (s, r) := s.run (opNewEntities probe n (fn == "fn"))
      match r with
      | .ok (t, start) =>
        let T := s.w.tbl t
        let news := (List.range n).map fun i => (l + i, T.getEntity (start + i))
        let s := s.addLabels news
        emitResult s ("ok " ++ " ".intercalate (news.map fun (l, e) => s!"e{l}={e}"))
      | .error k => emitResult s ("panic " ++ k.name)
    | _, _ => skip
  | "xchgb" :: f :: path :: fn :: rest =>
    -- covers AddBatch (only +), RemoveBatch (only -), ExchangeBatch
    match (numOf f).bind (AL.find? s.w.filters), ((optVal rest "rel").map s.relList).getD (some []),
          s.compArgs rest with
    | some fo, some extra, some a =>
      let vals := if fn == "fn" then some a.vals else none
      let (s, r) := s.run (do
        -- Filter.Batch(rel...) validates the per-call relations first
        if fo.typed then preCheckTyped fo.filter.mask extra
        opExchangeBatch probe (Sys.pathOf path) fo extra a.ids a.rem a.rels vals)
      emitResult s (resStr r)
    | _, _, _ => skip
  | "setrelb" :: f :: path :: fn :: rest =>
    match (numOf f).bind (AL.find? s.w.filters), ((optVal rest "rel").map s.relList).getD (some []),
          s.compArgs rest with
    | some fo, some extra, some a =>
      let mids := match optVal rest "mapper" with
        | some m => (s.compList m).getD a.ids
        | none => a.ids
      let (s, r) := s.run (do
        if fo.typed then preCheckTyped fo.filter.mask extra
        opSetRelationsBatch probe (Sys.pathOf path) fo extra mids a.rels (fn == "fn"))
      emitResult s (resStr r)
    | _, _, _ => skip
  | "delb" :: f :: fn :: rest =>
    match (numOf f).bind (AL.find? s.w.filters), ((optVal rest "rel").map s.relList).getD (some []) with
    | some fo, some extra =>
      let (s, r) := s.run (do
        if fo.typed then preCheckTyped fo.filter.mask extra
        opRemoveEntities probe fo extra (fn == "fn"))
      emitResult s (resStr r)
    | _, _ => skip
  | "obs" :: o :: evt :: rest =>
    match numOf o, parseEvent evt with
    | some l, some ev =>
      let spec : ObsSpec := {
        event := ev
        comps := (optVal rest "for").bind s.compList |>.getD []
        with_ := (optVal rest "with").bind s.compList |>.getD []
        without := (optVal rest "without").bind s.compList |>.getD []
        exclusive := hasFlag rest "excl"
        hasCallback := !hasFlag rest "nocb"
        script := ((optVal rest "script").map splitList |>.getD []).filterMap parseProbe }
      let s := { s with w := { s.w with obs := s.w.obs.setObj l { spec } } }
      emitResult s "ok"
    | _, _ => skip
  | ["oreg", o] =>
    match numOf o with
    | some l => if (AL.find? s.w.obs.objs l).isNone then skip else
      let (s, r) := s.run (opObsRegister l)
      emitResult s (resStr r)
    | none => skip
  | ["ounreg", o] =>
    match numOf o with
    | some l => if (AL.find? s.w.obs.objs l).isNone then skip else
      let (s, r) := s.run (opObsUnregister l)
      emitResult s (resStr r)
    | none => skip
  | "emit" :: evt :: e :: rest =>
    match evt.toNat?, s.entOf e, s.compArgs rest with
    | some ev, some e, some a =>
      let (s, r) := s.run (opEmit probe ev a.ids e)
      emitResult s (resStr r)
    | _, _, _ => skip
  | ["reset"] =>
    let (s, r) := s.run opReset
    let s := match r with
      | .ok _ => { s with epoch := [], oldLabels := s.labels, labels := [] }
      | .error _ => s
    emitResult s (resStr r)
  | ["shrink"] =>
    let (s, r) := s.run (opShrink false)
    emitResult s (resStr r fun b => if b then "1" else "0")
  | ["shrink0"] =>
    let (s, r) := s.run (opShrink true)
    emitResult s (resStr r fun b => if b then "1" else "0")
  | ["locked"] => emitResult s s!"ok {if s.w.isLocked then 1 else 0}"
  | ["stats"] =>
    let (s, r) := s.run opStats
    emitResult s (resStr r fun st => st.fmt)
  | ["dump", d] =>
    match numOf d with
    | some l =>
      let (s, r) := s.run (do
        let fo : FilterObj := {}
        let vs ← drain fo []
        let w ← M.get
        pure ({ entities := w.pool.ents, alive := vs.map (·.e.id), next := w.pool.next,
                available := w.pool.available } : Dump))
      let s := match r with
        | .ok dd => { s with dumps := AL.insert s.dumps l (dd, s.labels, s.epoch) }
        | .error _ => s
      emitResult s (resStr r fun dd =>
        s!"ents={",".intercalate (dd.entities.map toString)} alive={",".intercalate (dd.alive.map toString)} next={dd.next} avail={dd.available}")
    | none => skip
  | ["load", d] =>
    match (numOf d).bind (AL.find? s.dumps) with
    | some (dd, lbls, ep) =>
      let (s, r) := s.run (opLoad dd)
      -- the handles of the source world are valid again
      let s := match r with | .ok _ => { s with oldLabels := [], labels := lbls, epoch := ep } | .error _ => s
      emitResult s (resStr r)
    | none => skip
  | ["codec", ids, gens] =>
    match ids.toNat?, gens.toNat? with
    | some i, some g =>
      if i ≥ 2 ^ 32 || g ≥ 2 ^ 32 then emitResult s "skip" else
      let id := BitVec.ofNat 32 i
      let gen := BitVec.ofNat 32 g
      let bin := Codec.marshalBinary id gen
      let hex := String.join (bin.map fun b => hex2 b.toNat)
      let fmtE := fun (r : Option (Codec.U32 × Codec.U32)) => match r with
        | some (a, b) => s!"{a.toNat}.{b.toNat}"
        | none => "error"
      let rt := Codec.unmarshalBinary bin
      let app := Codec.unmarshalBinary ((Codec.appendBinary [0xAA#8] id gen).drop 1)
      let js := Codec.marshalJSON id gen
      let jrt := Codec.unmarshalJSON js
      let err := if rt.isNone || app.isNone || jrt.isNone then 1 else 0
      emitResult s s!"ok bin={hex} rt={fmtE rt} app={fmtE app} json=[{js.getD 0 0},{js.getD 1 0}] jrt={fmtE jrt} err={err}"
    | _, _ => skip
  | ["codecbad", n] =>
    match n.toNat? with
    | some k =>
      if k > 64 then skip else
      emitResult s s!"ok err={if (Codec.unmarshalBinary (List.replicate k 0#8)).isNone then 1 else 0}"
    | none => skip
  | ["res", "add", r, v] =>
    match numOf r, v.toNat? with
    | some rid, some val =>
      if (AL.find? s.w.resources rid).isSome then emitResult s "panic resource" else
      emitResult { s with w := { s.w with resources := AL.insert s.w.resources rid val } } "ok"
    | _, _ => skip
  | ["res", "rem", r] =>
    match numOf r with
    | some rid =>
      if (AL.find? s.w.resources rid).isNone then emitResult s "panic resource" else
      emitResult { s with w := { s.w with resources := AL.erase s.w.resources rid } } "ok"
    | none => skip
  | ["res", "get", r] =>
    match numOf r with
    | some rid =>
      match AL.find? s.w.resources rid with
      | some v => emitResult s s!"ok {v}"
      | none => emitResult s "ok nil"
    | none => skip
  | _ => emitResult s "bad-op"

partial def loop (h : IO.FS.Stream) (s : Sys) : IO Unit := do
  let line ← h.getLine
  if line.isEmpty then return ()
  let s ← step s line
  loop h s

def main : IO Unit := do
  let stdin ← IO.getStdin
  loop stdin {}
