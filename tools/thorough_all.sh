#!/bin/sh
# unchanged-tree pass of the thorough tier: every check must stay silent
cd "$(dirname "$0")/.." 2>/dev/null || true
[ -n "$VP_RUN_REPO" ] && export VERIF_REPO="$VP_RUN_REPO"
./setup >/dev/null 2>&1
for p in C01 C02 C03 C04 C05 C06 C07 C08 C09 C10 C11 C12 C13 C14 C15 C16 C17 C18 C19 C20; do
  start=$(date +%s)
  ./check $p thorough > /tmp/thorough-$p.log 2>&1 || { echo "ALARM thorough $p"; grep -A25 VIOLATION /tmp/thorough-$p.log | head -60; }
  echo "$p thorough done in $(( $(date +%s) - start )) s"
done
echo THOROUGH-FINISHED
