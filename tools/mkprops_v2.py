P='/verif/lean/Ark/Props/'
def w(pid, imports, body):
    open(P+pid+'.lean','w').write("".join("import %s\n" % i for i in imports)+"\nnamespace Ark.Props.%s\nopen Ark\n%s\nend Ark.Props.%s\n" % (pid, body, pid))
def re(name, const, doc):
    return "\n/-- %s -/\ntheorem %s : type_of%% @%s := @%s\n" % (doc, name, const, const)

w('C18', ['Ark.Generated.Logic','Ark.Proofs.MaskLemmas','Ark.Proofs.Rejects'], """
/-! C18 — type registries are stable and the documented capacity is usable. -/
open Ark.Generated

/-- the IDs enumerated by the two nested loops of `bitMask256.toTypes` when `n` component types are
    registered (index arithmetic regenerated from the source) -/
def toTypesIDs (n : Nat) : List Nat :=
  (List.range (toTypes_bins n)).flatMap fun i => (List.range (toTypes_cnt n i)).map (toTypes_id i)

/-- For EVERY registered count 0 ≤ n ≤ 256: the word index stays inside the 4-word mask and the
    loops enumerate exactly the IDs 0 … n-1 in ascending order (each fits `uint8`). -/
theorem toTypes_total :
    (List.range 257).all (fun n => toTypes_bins n ≤ 4 && toTypesIDs n == List.range n) = true := by
  decide +kernel

/-- Hence the component list of an archetype is the ascending list of the set bits: what the
    model uses (`Mask.toList`). -/
theorem toTypes_eq_toList (n : Nat) (hn : n ≤ 256) (m : Mask) :
    (toTypesIDs n).filter m.get = m.toList n := by
  have h := toTypes_total
  rw [List.all_eq_true] at h
  have := h n (List.mem_range.mpr (by omega))
  simp only [Bool.and_eq_true, beq_iff_eq] at this
  rw [this.2]
  rfl

/-- registration hands out the next free ID, and nothing else changes -/
theorem register_sequential (w : World) (k : CompKind) (hl : w.isLocked = false) (hn : w.kinds.length < w.maxComps) :
    ∃ w', World.registerComponent k w = .ok w.kinds.length w' ∧ w'.kinds = w.kinds ++ [k] ∧
      w'.archetypes = w.archetypes ∧ w'.tables = w.tables ∧ w'.pool = w.pool := by
  unfold World.registerComponent
  have : ¬ w.kinds.length ≥ w.maxComps := by omega
  simp [this, hl]

/-- exceeding the maximum panics without consuming an ID -/
theorem register_full (w : World) (k : CompKind) (hn : w.maxComps ≤ w.kinds.length) :
    World.registerComponent k w = .panic .registryFull w := by
  unfold World.registerComponent
  simp [hn]
"""+re('register_locked','World.registerComponent_locked','registering a new type on a locked world panics and is rolled back')
+"""
/-- a resource map: at most one value per resource ID, `find?` after `insert`/`erase` -/
theorem resources_map (m : AL Val) (r r2 : Nat) (v : Val) :
    AL.find? (AL.insert m r v) r = some v ∧ AL.find? (AL.erase m r) r = none ∧
    (r2 ≠ r → AL.find? (AL.insert m r v) r2 = AL.find? m r2 ∧ AL.find? (AL.erase m r) r2 = AL.find? m r2) :=
  ⟨AL.find?_insert_self m r v, AL.find?_erase_self m r,
   fun h => ⟨AL.find?_insert_ne m r r2 v h, AL.find?_erase_ne m r r2 h⟩⟩
""")

w('C15', ['Ark.Proofs.Table','Ark.Proofs.GenBridge','Ark.Proofs.ArchIndex','Ark.Proofs.Rejects'], """
/-! C15 — Shrink is invisible and convergent (table and index level). -/
"""+re('shrink_decides_as_in_source','GenBridge.tableShrink_eq','`table.Shrink` decides exactly as the Go code does (regenerated condition)')
+re('canShrink_decides_as_in_source','GenBridge.tableCanShrink_eq','`table.CanShrink` decides exactly as the Go code does')
+re('shrink_rows_unchanged','Table.shrink_preserves_rows','shrinking a table changes no row in use (entities, values)')
+re('shrink_capacity','Table.shrink_cap','after shrinking, the capacity is the old one or max(capPow2 len, minimum)')
+re('shrink_len','Table.shrink_len','the number of rows is unchanged')
+re('shrink_len_le_cap','Table.shrink_len_le_cap','size ≤ capacity afterwards')
+re('shrink_shape','Table.shrink_shape','the table shape invariant (zero tail, column lengths) survives shrinking')
+re('shrink_free_keeps_index','Archetype.IndexInv.freeTable_removeTableRelations','freeing an empty relation table during Shrink keeps the relation lookups exact, so later operations find the same tables')
+re('shrink_locked','World.opShrink_locked','Shrink on a locked world panics without effect (repaired defect D11)')
+"""
/-- after shrinking, a second shrink finds nothing to do for this table (convergence) -/
theorem shrink_idempotent (t : Table) (m : Nat) : ((t.shrink m).1.shrink m).2 = false := by
  have hc := Table.shrink_cap t m
  have hl := Table.shrink_len t m
  unfold Table.shrink at hc hl ⊢
  split
  · rename_i h
    simp only [h, if_true]
  · rename_i h
    simp only [h, if_false] at hc hl ⊢
    simp only [Table.adjustCapacity]
    simp
""")

w('C16', ['Ark.Proofs.GenBridge','Ark.Props.C02','Ark.Props.C08','Ark.Proofs.Rejects'], """
/-! C16 — Reset returns the world to a reusable empty state (pool, observers, lock). -/
"""+re('observer_reset_loop_as_in_source','GenBridge.observerReset_bound_eq','the observer-reset loop bound of the model IS the regenerated one')
+re('observer_reset_covers_all_events','GenBridge.observerReset_covers','the loop visits every event type up to the highest registered one, for all 256 event types (repaired defect D6)')
+re('reset_kills_old_handles','Ark.Props.C02.reset_kills','no handle of the previous epoch is alive after Reset (repaired defect D14)')
+re('reset_locked','World.opReset_locked','Reset on a locked world panics without effect')
+"""
/-- after `Reset` the pool is the initial pool again: same handles will be issued as by a new world -/
theorem pool_reset_core (p : Pool) (h2 : p.ents.take 2 = Pool.init.ents) :
    p.reset.ents = Pool.init.ents ∧ p.reset.next = Pool.init.next ∧ p.reset.available = Pool.init.available := by
  simp [Pool.reset, Pool.reserved, h2, Pool.init]

/-- the lock is clear after `Reset` -/
theorem lock_reset (l : Lock) : l.reset.isLocked = false := by
  simp [Lock.reset, Lock.isLocked]
""")
