P='/verif/lean/Ark/Props/'
def w(pid, imports, body):
    open(P+pid+'.lean','w').write("".join("import %s\n" % i for i in imports)+"\nnamespace Ark.Props.%s\nopen Ark\n%s\nend Ark.Props.%s\n" % (pid, body, pid))
def re(name, const, doc):
    return "\n/-- %s -/\ntheorem %s : type_of%% @%s := @%s\n" % (doc, name, const, const)

w('C09', ['Ark.Generated.Facts','Ark.Proofs.Rejects','Ark.Props.C08'], """
/-! C09 — observer callbacks see a consistent world at the documented time. -/

/-- T2 (regenerated from the source): in every operation that emits events, removal events are
    fired under the world lock BEFORE the first row mutation, addition events after the last one;
    single-entity operations release the lock before mutating (the caller's lock state holds for
    addition events), batch operations keep it until all events are fired; for batch operations
    all removal events precede all mutations and all addition events follow them
    (repaired defects D8 and D10). -/
theorem event_order_in_source : Generated.eventOrder = [
    ("World.remove", ["lock", "fireRemove", "unlock", "mutate"]),
    ("World.exchange", ["lock", "fireRemove", "unlock", "mutate"]),
    ("World.setRelations", ["lock", "fireRemove", "unlock", "mutate", "fireAdd"]),
    ("storage.RemoveEntity", ["lock", "fireRemove", "unlock", "mutate"]),
    ("World.exchangeBatch", ["lock", "fireRemove", "mutate", "fireAdd", "unlock"]),
    ("World.setRelationsBatch", ["lock", "fireRemove", "mutate", "fireAdd", "unlock"]),
    ("World.RemoveEntities", ["lock", "fireRemove", "mutate", "unlock"])] := by decide
"""+re('callbacks_cannot_change_structure_when_locked','World.opNewEntity0_locked','inside removal and batch callbacks the world is locked: structural operations are rejected without effect')
+re('callback_set_exact','Ark.Props.C08.dispatch_independent_remove','the callbacks that run are exactly the observers whose predicate holds')
)

w('C13', ['Ark.Generated.Facts','Ark.Props.C07'], """
/-! C13 — concurrent query execution is race-free and exact (PARTIAL: the theorem side covers
    the lock-bit machine under arbitrary interleavings of its atomic steps and the extracted
    lockset discipline; the Go memory model, the mutex implementation and real schedules are
    exercised by the race-detector run of the check, not proved). -/

/-- T2 (regenerated): in every `FilterN.Query` all reads and writes of the shared fields
    `generation`/`rareComp` are inside the mutex region (repaired defect D13). -/
theorem filter_fields_guarded : Generated.mutexRegions.all (fun r => r.2.1 == 0 && r.2.2 == 0) = true ∧
    Generated.mutexRegions.length = 9 := by decide
"""+re('interleavings_keep_lock_exact','Ark.Props.C07.locks_exact','`LockSafe`/`UnlockSafe` are atomic (mutex): ANY interleaving of the lock steps of concurrent queries is a history of the lock machine, for which the mask equals the set of outstanding bits')
+re('unlocked_after_all_closed','Ark.Props.C07.unlocked_after_all_returned','once every query has finished or been closed the world is unlocked')
+re('up_to_64_open','Ark.Props.C07.lock_succeeds_iff','a further query can be opened iff fewer than 64 are open')
)

w('C14', ['Ark.Generated.Facts'], """
/-! C14 — the typed generic API and the ID-based API are equivalent at every arity. -/

/-- T2 (regenerated): at each of the 1242 sites of the generated code where a type parameter, a
    component storage/column and an `ids` index meet, the positions agree; the argument tuples of
    `Get` are in parameter order at every arity; relation indices address `ids[index]`. -/
theorem arity_wiring_correct : Generated.arityWiring.all (·.2) = true ∧ Generated.arityWiringSites ≥ 1200 := by decide

/-- T2 (regenerated): every checked-in generated file is exactly the output of the generator on
    the templates: every arity is an instance of one template, so a fact established for the
    template shape holds for all arities. -/
theorem generated_files_are_template_instances : Generated.templateMatches.all (·.2) = true ∧
    Generated.templateMatches.length = 7 := by decide
""")

w('C06', ['Ark.Proofs.Table','Ark.Proofs.Rejects','Ark.Generated.Facts'], """
/-! C06 — batch operations equal the per-entity operations they abbreviate (table level; the
    world-level fold equality is checked by correspondence). -/
"""+re('bulk_move_rowwise','Table.addAll_cell','moving all rows of a table appends them in order behind the rows already there, values intact')
+re('bulk_move_entities','Table.addAll_getEntity','… and the entity column likewise')
+re('bulk_move_len','Table.addAll_len','the destination grows by exactly the number of moved rows')
+re('column_copy_rowwise','Table.copyToEnd_cell','batch exchange copies each kept column to the last rows of the destination, nothing else changes')
+re('source_emptied','Table.reset_zero','the source table is empty and zeroed afterwards')
+re('batch_locked_rejected','World.exchangeBatch_locked','a batch operation on a locked world is rejected without effect')
+"""
/-- T2 (regenerated): `exchangeBatch` and `setRelationsBatch` fire all removal events before the
    first move and all addition events after the last one, under one lock. -/
theorem batch_event_order_in_source :
    (Generated.eventOrder.filter fun p => p.1 == "World.exchangeBatch" || p.1 == "World.setRelationsBatch").map (·.2) =
      [["lock", "fireRemove", "mutate", "fireAdd", "unlock"], ["lock", "fireRemove", "mutate", "fireAdd", "unlock"]] := by decide
""")
