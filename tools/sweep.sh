#!/bin/sh
# unchanged-tree sweep over seeds: every check must stay silent
cd "$(dirname "$0")/.." 2>/dev/null || true
[ -n "$VP_RUN_REPO" ] && export VERIF_REPO="$VP_RUN_REPO"
./setup >/dev/null 2>&1
for seed in ${SWEEP_SEEDS:-1 2 3 4 5 6 7 8 9}; do
  for p in C01 C02 C03 C04 C05 C06 C07 C08 C09 C10 C11 C12 C13 C14 C15 C16 C17 C18 C19 C20; do
    VERIF_SEED=$seed ./check $p quick > /tmp/sweep-$p-$seed.log 2>&1 || { echo "ALARM seed=$seed $p"; grep -A25 VIOLATION /tmp/sweep-$p-$seed.log | head -60; }
  done
  echo "seed $seed done"
done
echo SWEEP-FINISHED
