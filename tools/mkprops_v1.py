P='/verif/lean/Ark/Props/'
def w(pid, imports, body):
    open(P+pid+'.lean','w').write("".join("import %s\n" % i for i in imports)+"\nnamespace Ark.Props.%s\nopen Ark\n%s\nend Ark.Props.%s\n" % (pid, body, pid))
def re(name, const, doc):
    return "\n/-- %s -/\ntheorem %s : type_of%% @%s := @%s\n" % (doc, name, const, const)

w('C03', ['Ark.Proofs.GenBridge','Ark.Proofs.MaskLemmas','Ark.Proofs.ArchIndex'], """
/-! C03 — queries return exactly the matching entities (selection logic). -/
"""+re('filter_matches_as_in_source','GenBridge.filter_matches_eq','the filter test of the model IS the regenerated `filter.matches` of the Go source, for all masks')
+re('filter_matches_setlevel','Filter.matchesMask_iff','set-level meaning of the filter test: every required component present, no excluded component present')
+re('exclusive_matches_exactly','Filter.exclusive_matches_iff','an exclusive filter matches exactly the component set of the filter')
+re('relation_lookup_complete','Archetype.IndexInv.getTables_complete','the per-target table lookup returns exactly the active tables with that target, without duplicates')
+re('relation_lookup_all','Archetype.IndexInv.getTables_all','without relation targets (or relations) the lookup returns all active tables, without duplicates')
)
w('C04', ['Ark.Proofs.ArchIndex','Ark.Proofs.Rejects'], """
/-! C04 — relation indices stay consistent under table creation, freeing, recycling and target
    removal (per-archetype index invariant `IndexInv`). -/
"""+re('index_new','Archetype.indexInv_new','a new archetype satisfies the index invariant')
+re('index_addTable','Archetype.IndexInv.addTable','registering a new table keeps all per-target lookups exact')
+re('index_recycle','Archetype.IndexInv.recycle','recycling a free table for other targets keeps the lookups exact: it is reachable only under its new targets')
+re('index_shrink_free','Archetype.IndexInv.freeTable_removeTableRelations','freeing an empty table whose targets are alive (Shrink) keeps the lookups exact')
+re('index_cleanup_free','Archetype.IndexInvExcept.freeTable','freeing the tables of a removed target, one by one, keeps the lookups exact for all other targets')
+re('index_cleanup_done','Archetype.IndexInvExcept.removeTarget','after all tables of a removed target are freed, dropping its key restores the full invariant')
+re('index_removeTarget','Archetype.IndexInv.removeTarget','dropping the key of an entity that no table targets changes nothing else')
+re('free_alone_breaks','Archetype.freeTable_alone_breaks','the defect repaired in Shrink (D1): freeing alone leaves a stale entry')
)
w('C05', ['Ark.Proofs.TableIDs','Ark.Proofs.ArchIndex'], """
/-! C05 — the table lists kept for registered filters (`cacheEntry.tables`) are `tableIDs`; their
    slice and index map stay in step under append and swap-remove. -/
"""+re('tableIDs_empty','TableIDs.wf_empty','the empty list is well formed')
+re('tableIDs_ofList','TableIDs.wf_ofList','a list built from duplicate-free table IDs is well formed')
+re('tableIDs_append','TableIDs.WF.append','appending a new table keeps slice and index map in step')
+re('tableIDs_remove','TableIDs.WF.remove','swap-remove through the index map keeps them in step')
+re('tableIDs_remove_mem','TableIDs.WF.mem_remove','swap-remove removes exactly the requested table')
+re('tableIDs_remove_absent','TableIDs.WF.remove_of_not_mem','removing an absent table changes nothing')
)
w('C10', ['Ark.Proofs.Rejects','Ark.Generated.Facts'], """
/-! C10 — precondition violations are rejected, not absorbed. -/

/-- T2 (regenerated from the source): every method that takes an `Entity` checks `Alive`, or
    delegates to a checked core operation, before it first reads the entity index. -/
theorem alive_checked_before_use : Generated.aliveGuards.all (·.2) = true := by decide +kernel

/-- the API surface that was inspected is not empty and covers all generated arities -/
theorem alive_guard_surface : Generated.aliveGuards.length ≥ 150 := by decide +kernel

/-- T2: every structural entry point starts with the lock check. -/
theorem lock_checked_first : (∀ p ∈ Generated.lockFirst, p.2 = true) ∧ (∀ p ∈ Generated.newBatchLockFirst, p.2 = true) ∧
    Generated.lockFirst.length = 15 ∧ Generated.newBatchLockFirst.length = 13 := by decide
"""+"".join(re(n,'World.'+n,d) for n,d in [
 ('addCore_dead','add on a dead handle: panic, state unchanged'),
 ('removeCore_dead','remove on a dead handle: panic, state unchanged'),
 ('exchangeCore_dead','exchange on a dead handle: panic, state unchanged'),
 ('setRelationsCore_dead','set relations on a dead handle: panic, state unchanged'),
 ('opRemoveEntity_dead','removing a dead handle: panic, state unchanged'),
 ('opCopyEntity_dead','copying a dead handle: panic, state unchanged (repaired defect D4)'),
 ('opSet_dead','Set on a dead handle: panic, state unchanged'),
 ('addCore_noComponents','adding no components: panic, state unchanged'),
 ('removeCore_noComponents','removing no components: panic, state unchanged'),
 ('exchangeCore_noComponents','exchanging nothing: panic, state unchanged'),
 ('setRelationsCore_noRelations','no relations given: panic, state unchanged'),
 ('graphFindAdd_already','adding a component the entity has: panic, state unchanged'),
 ('graphFindRemove_missing','removing a component the entity lacks: panic, state unchanged'),
 ('addCore_locked','changing a locked world: panic, state unchanged'),
 ('opRemoveEntity_locked','changing a locked world: panic, state unchanged'),
]))
w('C12', ['Ark.Generated.Facts','Ark.Proofs.AL','Ark.Model.Archetype'], """
/-! C12 — determinism: the only map iterations in the package are the two loops of
    `archetype.FreeTable`, and their result does not depend on the iteration order. -/

/-- T2 (regenerated): the complete list of `range` statements over map-typed expressions. -/
theorem map_ranges_only_in_freeTable :
    Generated.mapRanges = [("archetype.FreeTable", "m"), ("archetype.FreeTable", "a.targetTables")] := by decide
"""+re('freeTable_loops_pointwise','AL.find?_mapVals','the two loops apply one function to every value of the map: the result for a key depends only on the value stored under that key, hence not on the order in which the map is walked')
)
