"""Shared machinery of /verif/check. See DESIGN.md §5."""
import hashlib, json, os, re, shutil, subprocess, sys, time, glob

VERIF = os.path.dirname(os.path.dirname(os.path.abspath(__file__)))
REPO = os.environ.get("VERIF_REPO", "/repo")
CACHE = os.path.join(VERIF, ".cache")
LEAN = os.path.join(VERIF, "lean")
HARNESS = os.path.join(VERIF, "harness")
EVIDENCE = os.path.join(VERIF, "evidence")
REPLAYS = os.path.join(VERIF, "replays")
KNOWN = os.path.join(VERIF, "known_findings.json")

ALLOWED_AXIOMS = {"propext", "Classical.choice", "Quot.sound"}

sys.path.insert(0, os.path.dirname(os.path.abspath(__file__)))
import shrink as shrinker
import propcfg


# ----------------------------------------------------------------------------------------
# helpers
# ----------------------------------------------------------------------------------------

def go_env():
    env = dict(os.environ)
    env["GOFLAGS"] = "-mod=mod"
    env["GOPROXY"] = "off"
    env.pop("GOSUMDB", None)
    env.setdefault("GOTOOLCHAIN", "auto")
    if env["GOTOOLCHAIN"] == "local":
        env["GOTOOLCHAIN"] = "auto"
    return env


def sh(cmd, cwd=None, env=None, timeout=3600, input=None):
    p = subprocess.run(cmd, cwd=cwd, env=env, capture_output=True, timeout=timeout, input=input)
    return p.returncode, p.stdout.decode(errors="replace"), p.stderr.decode(errors="replace")


def file_hash(paths):
    h = hashlib.sha256()
    for p in sorted(paths):
        h.update(p.encode())
        try:
            with open(p, "rb") as f:
                h.update(f.read())
        except OSError:
            h.update(b"<missing>")
    return h.hexdigest()[:20]


def repo_sources():
    out = []
    for root, dirs, files in os.walk(REPO):
        dirs[:] = [d for d in dirs if d not in (".git", "docs", "benchmark", "examples")]
        for f in files:
            if f.endswith(".go") and not f.endswith("_test.go"):
                out.append(os.path.join(root, f))
        if "go.mod" in files:
            out.append(os.path.join(root, "go.mod"))
    return out


def harness_sources():
    return glob.glob(os.path.join(HARNESS, "*.go")) + [os.path.join(HARNESS, "go.mod")]


class Failure(Exception):
    """A step of the check could not be completed (build error etc.)."""


# ----------------------------------------------------------------------------------------
# builds
# ----------------------------------------------------------------------------------------

def build_harness(tags=("verif",), race=False):
    """Builds the harness against /repo's current working tree. Returns the binary path."""
    key = file_hash(repo_sources() + harness_sources()) + "-" + "_".join(tags) + ("-race" if race else "")
    d = os.path.join(CACHE, "h-" + key)
    binp = os.path.join(d, "arkh")
    if os.path.exists(binp):
        return binp
    os.makedirs(d, exist_ok=True)
    tmp = binp + ".tmp%d" % os.getpid()
    cmd = ["go", "build", "-tags", ",".join(tags), "-o", tmp]
    if race:
        cmd.insert(2, "-race")
    if REPO != "/repo":
        # background sweeps run against a snapshot of the repository (VERIF_REPO): same module
        # file with the replace directive pointing there
        alt = os.path.join(d, "alt.mod")
        with open(alt, "w") as f:
            f.write(open(os.path.join(HARNESS, "go.mod")).read().replace("=> /repo", "=> " + REPO))
        if os.path.exists(os.path.join(HARNESS, "go.sum")):
            shutil.copy(os.path.join(HARNESS, "go.sum"), os.path.join(d, "alt.sum"))
        cmd.insert(2, "-modfile=" + alt)
    cmd.append(".")
    rc, out, err = sh(cmd, cwd=HARNESS, env=go_env(), timeout=900)
    if rc != 0:
        # fall back to the newer local toolchain
        env = go_env()
        env["GOTOOLCHAIN"] = "local"
        cmd[0] = "go1.26"
        rc, out, err = sh(cmd, cwd=HARNESS, env=env, timeout=900)
    if rc != 0:
        raise Failure("harness build failed (tags=%s):\n%s%s" % (tags, out, err))
    os.replace(tmp, binp)
    prune_cache()
    return binp


def prune_cache(keep=12):
    try:
        ds = sorted((os.path.getmtime(p), p) for p in glob.glob(os.path.join(CACHE, "h-*")))
        for _, p in ds[:-keep]:
            shutil.rmtree(p, ignore_errors=True)
    except OSError:
        pass


def regenerate(templates=True):
    """T1/T2: regenerate Ark/Generated/*.lean from /repo's current source."""
    ext = os.path.join(VERIF, "tools", "extract")
    if not os.path.isdir(ext):
        return {"regenerated": False}
    key = file_hash(glob.glob(os.path.join(ext, "*.go")) + [os.path.join(ext, "go.mod")])
    d = os.path.join(CACHE, "x-" + key)
    binp = os.path.join(d, "extract")
    if not os.path.exists(binp):
        os.makedirs(d, exist_ok=True)
        rc, out, err = sh(["go", "build", "-o", binp + ".tmp", "."], cwd=ext, env=go_env(), timeout=600)
        if rc != 0:
            env = go_env(); env["GOTOOLCHAIN"] = "local"
            rc, out, err = sh(["go1.26", "build", "-o", binp + ".tmp", "."], cwd=ext, env=env, timeout=600)
        if rc != 0:
            raise Failure("extractor build failed:\n" + out + err)
        os.replace(binp + ".tmp", binp)
    gen_dir = os.path.join(LEAN, "Ark", "Generated")
    tmp_dir = os.path.join(CACHE, "gen-%d" % os.getpid())
    shutil.rmtree(tmp_dir, ignore_errors=True)
    os.makedirs(tmp_dir)
    # the template comparison re-runs ark's code generator (`go run`): only C14 needs it
    args = [binp, "-repo", REPO, "-out", tmp_dir] + ([] if templates else ["-templates=false"])
    for attempt in range(3):
        try:
            rc, out, err = sh(args, timeout=600)
            break
        except subprocess.TimeoutExpired:
            rc, out, err = 2, "", "extractor timed out (attempt %d)" % (attempt + 1)
    info = {"regenerated": True, "extract_rc": rc, "extract_msgs": (out + err).strip().splitlines()[-20:]}
    if rc != 0:
        shutil.rmtree(tmp_dir, ignore_errors=True)
        info["error"] = "extractor failed"
        raise Failure("extractor failed (the source does not parse):\n" + out + err)
    # fragments that no longer have a translatable shape: their definitions are omitted from the
    # generated files, so exactly the Props modules depending on them stop building
    pf = os.path.join(tmp_dir, "problems.txt")
    info["fragment_problems"] = [l for l in open(pf).read().splitlines() if l.strip()] if os.path.exists(pf) else []
    # install only files whose content changed, so that lake rebuilds exactly what depends on them
    os.makedirs(gen_dir, exist_ok=True)
    produced = set(f for f in os.listdir(tmp_dir) if f.endswith(".lean"))
    for f in os.listdir(gen_dir):
        if f.endswith(".lean") and f not in produced and not (f == "FactsTemplates.lean" and not templates):
            os.remove(os.path.join(gen_dir, f))
    changed = []
    for f in produced:
        src, dst = os.path.join(tmp_dir, f), os.path.join(gen_dir, f)
        new = open(src, "rb").read()
        old = open(dst, "rb").read() if os.path.exists(dst) else None
        if new != old:
            with open(dst, "wb") as fh:
                fh.write(new)
            changed.append(f)
    shutil.rmtree(tmp_dir, ignore_errors=True)
    info["changed_files"] = changed
    return info


def lake_build(targets, timeout=3000):
    rc, out, err = sh(["lake", "build"] + targets, cwd=LEAN, timeout=timeout)
    return rc, out + err


def driver_path():
    return os.path.join(LEAN, ".lake", "build", "bin", "arkdriver")


def build_driver():
    rc, log = lake_build(["arkdriver"])
    if rc != 0:
        raise Failure("driver build failed:\n" + log[-4000:])
    return driver_path()


# ----------------------------------------------------------------------------------------
# proof step
# ----------------------------------------------------------------------------------------

FORBIDDEN = re.compile(r"\b(sorry|admit|native_decide|implemented_by|unsafe)\b|^axiom\s|maxHeartbeats\s+0|\bbv_decide\b", re.M)


def strip_comments(src):
    # remove block comments (nested) and line comments
    out, i, depth = [], 0, 0
    while i < len(src):
        if src.startswith("/-", i):
            depth += 1; i += 2; continue
        if src.startswith("-/", i) and depth > 0:
            depth -= 1; i += 2; continue
        if depth == 0:
            if src.startswith("--", i):
                j = src.find("\n", i)
                i = len(src) if j < 0 else j
                continue
            out.append(src[i])
        elif src[i] == "\n":
            out.append("\n")
        i += 1
    return "".join(out)


def grep_gate():
    hits = []
    for p in glob.glob(os.path.join(LEAN, "Ark", "**", "*.lean"), recursive=True) + glob.glob(os.path.join(LEAN, "Driver", "*.lean")):
        src = strip_comments(open(p).read())
        # string literals may mention the words
        src = re.sub(r'"(\\.|[^"\\])*"', '""', src)
        for m in FORBIDDEN.finditer(src):
            line = src.count("\n", 0, m.start()) + 1
            tok = m.group(0).strip()
            rel = os.path.relpath(p, LEAN)
            if tok == "bv_decide" and rel in propcfg.BV_DECIDE_ALLOWED:
                continue
            hits.append("%s:%d: %s" % (rel, line, tok))
    return hits


def theorems_in(path):
    src = strip_comments(open(path).read())
    ns = []
    names = []
    for m in re.finditer(r"^(namespace|end|theorem)\s+([A-Za-z0-9_.'«»]+)", src, re.M):
        kind, name = m.group(1), m.group(2)
        if kind == "namespace":
            ns.append(name)
        elif kind == "end":
            if ns and ns[-1] == name:
                ns.pop()
        else:
            names.append(".".join(ns + [name]))
    return names


def proof_step(pid):
    """Builds Props/<pid> and the audit; returns (ok, info)."""
    info = {"obligations": 0, "discharged": 0, "theorems": [], "axioms": {}, "failed": []}
    props = os.path.join(LEAN, "Ark", "Props", pid + ".lean")
    audit = os.path.join(LEAN, "Ark", "Audit", pid + ".lean")
    if not os.path.exists(props):
        info["error"] = "no Props file"
        return False, info
    names = theorems_in(props)
    # Props/<pid>Src.lean: theorems over definitions translated from the source, kept in their own
    # module so that other properties' proofs do not depend on them
    mods = ["Ark.Props." + pid]
    for suffix in ("Src", "Top"):
        srcp = os.path.join(LEAN, "Ark", "Props", pid + suffix + ".lean")
        if os.path.exists(srcp):
            names = names + theorems_in(srcp)
            mods.append("Ark.Props." + pid + suffix)
    info["theorems"] = names
    info["obligations"] = len(names)
    # (re)write the audit file from the theorem list
    body = "".join("import %s\n" % m for m in mods) + "\n" + "".join("#print axioms %s\n" % n for n in names)
    if not os.path.exists(audit) or open(audit).read() != body:
        os.makedirs(os.path.dirname(audit), exist_ok=True)
        with open(audit, "w") as f:
            f.write(body)
    t0 = time.time()
    rc, log = lake_build(mods)
    info["lake_build_s"] = round(time.time() - t0, 1)
    if rc != 0:
        errs = [l for l in log.splitlines() if "error" in l]
        info["failed"] = errs[:40]
        info["build_log_tail"] = log[-3000:]
        return False, info
    rc, out, err = sh(["lake", "env", "lean", audit], cwd=LEAN, timeout=900)
    text = out + err
    if rc != 0:
        info["failed"] = [l for l in text.splitlines() if "error" in l][:40]
        return False, info
    cur = None
    for m in re.finditer(r"'(\S+)' (depends on axioms: \[([^\]]*)\]|does not depend on any axioms)", text.replace("\n", " ")):
        name = m.group(1)
        axs = [a.strip() for a in (m.group(3) or "").split(",") if a.strip()]
        info["axioms"][name] = axs
    bad = []
    for n in names:
        axs = info["axioms"].get(n)
        if axs is None:
            bad.append("%s: not audited" % n)
            continue
        extra = [a for a in axs if a not in ALLOWED_AXIOMS and not (a.endswith("bv_decide.ax") or "._native.bv_decide" in a and n in propcfg.BV_DECIDE_THEOREMS)]
        if extra:
            bad.append("%s: axioms %s" % (n, extra))
    info["discharged"] = len(names) - len(bad)
    gate = grep_gate()
    if gate:
        bad += ["grep gate: " + g for g in gate]
    info["failed"] = bad
    return (not bad and len(names) > 0), info


# ----------------------------------------------------------------------------------------
# traces and projections
# ----------------------------------------------------------------------------------------

HANDLE = re.compile(r"(e\d+)=\d+\.\d+")


def parse_blocks(text):
    """Splits a trace into blocks: [(n, result_line, [log lines], snapshot or None)]."""
    blocks = []
    cur = None
    for line in text.splitlines():
        m = re.match(r"#(\d+) (.*)$", line)
        if m:
            cur = [int(m.group(1)), m.group(2), [], None]
            blocks.append(cur)
        elif cur is not None:
            if line.startswith("  S "):
                cur[3] = line[4:]
            elif line.startswith("  S"):
                cur[3] = ""
            else:
                cur[2].append(line)
    return blocks


def canon_list(s):
    """sorts a comma separated list of eN{...} items (brace aware)"""
    items, depth, cur = [], 0, ""
    for ch in s:
        if ch == "{":
            depth += 1
        elif ch == "}":
            depth -= 1
        if ch == "," and depth == 0:
            items.append(cur); cur = ""
        else:
            cur += ch
    if cur:
        items.append(cur)
    return ",".join(sorted(items))


def canon_result(res, opname, facets):
    """Canonical form of the result part of a `#n` line for the given facets."""
    if res.startswith("panic "):
        return res
    if res in ("skip", "bad-op"):
        return res
    body = res[3:] if res.startswith("ok ") else ""
    if opname in ("new", "new0", "copy", "newb", "new0b"):
        if "handles" in facets:
            return "ok " + body
        return "ok " + HANDLE.sub(r"\1", body)
    if opname == "reg":
        return "ok " + body if "registry" in facets else "ok"
    if opname == "query":
        if "query" not in facets:
            return "ok"
        m = re.match(r"n=(\d+) at=(\S*) visit=(\S*)$", body)
        if not m:
            return "ok " + body
        return "ok n=%s at=%s visit=%s" % (m.group(1), canon_list(m.group(2)), canon_list(m.group(3)))
    if opname in ("qnext", "qget", "qgetc", "qcount", "qat"):
        return "ok " + body if "cursor" in facets else "ok"
    if opname == "stats":
        return "ok " + body if "stats" in facets else "ok"
    if opname == "dump":
        return "ok " + body if "handles" in facets else "ok"
    if opname in ("alive",):
        return "ok " + body if "alive" in facets else "ok"
    if opname in ("locked",):
        return "ok " + body if "locked" in facets else "ok"
    if opname in ("shrink", "shrink0"):
        return "ok " + body if "shrink" in facets else "ok"
    if opname == "res":
        return "ok " + body if "resources" in facets else "ok"
    return "ok " + body if body else "ok"


def group_logs(lines, facets):
    """Groups nested callback lines by `cb`/`fn` record and sorts the groups."""
    if "log" not in facets:
        return []
    groups, cur = [], None
    for l in lines:
        if l.startswith("  cb ") or l.startswith("  fn "):
            cur = [l]
            groups.append(cur)
        elif cur is not None:
            cur.append(l)
        else:
            groups.append([l])
    out = []
    for g in sorted(groups):
        for l in g:
            if "locked" not in facets:
                l = re.sub(r" locked=\d", "", l)
            out.append(l)
    return out


def project(text, ops_lines, facets):
    blocks = parse_blocks(text)
    out = []
    for n, res, logs, snap in blocks:
        opname = ops_lines[n - 1].split()[0] if 0 < n <= len(ops_lines) and ops_lines[n - 1].split() else "?"
        out.append("#%d %s" % (n, canon_result(res, opname, facets)))
        out.extend(group_logs(logs, facets))
        if "snap" in facets and snap is not None:
            out.append("  S " + snap)
    return out


# spec-level self checks on the implementation trace alone (oracle, independent of the model)
BATCH_OPS = ("newb", "new0b", "xchgb", "setrelb", "delb")
REMOVAL_EVENTS = ("remove", "rem", "remrel")


def self_checks(text, ops_lines):
    problems = []
    obs_event = {}
    for n, res, logs, snap in parse_blocks(text):
        toks = ops_lines[n - 1].split() if 0 < n <= len(ops_lines) else []
        opname = toks[0] if toks else "?"
        if opname == "world":
            obs_event = {}
        if opname == "obs" and len(toks) > 2:
            obs_event[toks[1]] = toks[2]
        if "BAD" in res or (snap and "BAD" in snap) or any("BAD" in l for l in logs):
            problems.append((n, "component self-check failed (corrupted value)"))
        if snap and "!" in snap:
            problems.append((n, "an entity reported alive could not be read: " + snap[:80]))
        if snap:
            alive = set(re.findall(r"(?:^| )(e\d+)\{", snap))
            for t in re.findall(r">(e\d+|\?[\d.]+)", snap):
                if t not in alive:
                    problems.append((n, "relation target %s is neither the zero entity nor alive" % t))
                    break
        cur_obs = None
        for l in logs:
            m = re.match(r"  cb (o\d+) (\S+)", l)
            if m:
                cur_obs = m.group(1)
                # `?id.gen` is an entity without label (temporary entity of a `trynew` probe, or of an
                # operation that panicked later); the zero entity is never the subject of an operation
                if opname != "emit" and m.group(2) == "z":
                    problems.append((n, "callback of %s reports %s, not an entity of the operation" % (cur_obs, m.group(2))))
                continue
            m = re.match(r"  q f\d+ total=(\d+) occ=(\d+)", l)
            if m and int(m.group(2)) > 1:
                problems.append((n, "the reported entity appears %s times in a query run inside the callback" % m.group(2)))
            m = re.match(r"  look alive=(\d) locked=(\d)", l)
            if m and cur_obs:
                if m.group(1) == "0" and opname != "emit":
                    problems.append((n, "callback of %s: the reported entity is not alive" % cur_obs))
                ev = obs_event.get(cur_obs)
                if m.group(2) == "0" and (ev in REMOVAL_EVENTS or opname in BATCH_OPS):
                    problems.append((n, "callback of %s (%s event, op %s) ran on an unlocked world" % (cur_obs, ev, opname)))
            m = re.match(r"  fn \S+ locked=(\d)", l)
            if m and m.group(1) == "0":
                problems.append((n, "batch callback ran on an unlocked world"))
        if opname == "query" and res.startswith("ok "):
            m = re.match(r"ok n=(\d+) at=(\S*) visit=(\S*)$", res)
            if m:
                at = [x for x in m.group(2).split(",") if x]
                vis = re.findall(r"(?:^|,)(e\d+|\?[\d.]+|z)\{", m.group(3))
                if int(m.group(1)) != len(vis):
                    problems.append((n, "Count %s != visited %d" % (m.group(1), len(vis))))
                if at != vis:
                    problems.append((n, "EntityAt sequence differs from iteration order"))
                if len(set(vis)) != len(vis):
                    problems.append((n, "entity visited more than once"))
    return problems


def sequences(ops_lines):
    """[(start, end)] line index ranges (0-based, end exclusive) of `world`-delimited sequences."""
    starts = [i for i, l in enumerate(ops_lines) if l.startswith("world ")]
    if not starts or starts[0] != 0:
        starts = [0] + starts
    return [(s, (starts[i + 1] if i + 1 < len(starts) else len(ops_lines))) for i, s in enumerate(starts)]


# ----------------------------------------------------------------------------------------
# correspondence
# ----------------------------------------------------------------------------------------

def run_gen(harness, seed, nseq, nops, profile, workdir, tag):
    ops = os.path.join(workdir, "ops-%s.txt" % tag)
    trace = os.path.join(workdir, "impl-%s.txt" % tag)
    stats = os.path.join(workdir, "stats-%s.json" % tag)
    env = dict(os.environ)
    env.setdefault("GOMEMLIMIT", "4GiB")
    env["GOTRACEBACK"] = "none"
    rc, out, err = sh([harness, "-mode", "gen", "-ops", ops, "-trace", trace, "-seed", str(seed),
                       "-nseq", str(nseq), "-nops", str(nops), "-profile", profile, "-stats", stats],
                      env=env, timeout=1800)
    return rc, ops, trace, stats, err


def run_driver(driver, ops_path, out_path):
    with open(ops_path, "rb") as fi, open(out_path, "wb") as fo:
        p = subprocess.run([driver], stdin=fi, stdout=fo, stderr=subprocess.PIPE, timeout=1800)
    return p.returncode, p.stderr.decode(errors="replace")


def run_replay(harness, ops_lines, timeout=60):
    data = ("\n".join(ops_lines) + "\n").encode()
    try:
        p = subprocess.run([harness, "-mode", "replay"], input=data, capture_output=True, timeout=timeout,
                           env=dict(os.environ, GOTRACEBACK="none"))
        return p.returncode, p.stdout.decode(errors="replace"), p.stderr.decode(errors="replace")
    except subprocess.TimeoutExpired:
        return 124, "", "timeout"


def run_model(driver, ops_lines, timeout=120):
    data = ("\n".join(ops_lines) + "\n").encode()
    p = subprocess.run([driver], input=data, capture_output=True, timeout=timeout)
    return p.stdout.decode(errors="replace")


def first_divergence(a, b):
    for i, (x, y) in enumerate(zip(a, b)):
        if x != y:
            return i
    if len(a) != len(b):
        return min(len(a), len(b))
    return None


def op_number(proj_lines, idx):
    """op number (1-based) of the projected line at idx"""
    for i in range(min(idx, len(proj_lines) - 1), -1, -1):
        m = re.match(r"#(\d+) ", proj_lines[i])
        if m:
            return int(m.group(1))
    return 1


class Correspondence:
    def __init__(self, pid, cfg, tier, seed):
        self.pid, self.cfg, self.tier, self.seed = pid, cfg, tier, seed
        self.evaluations = 0
        self.ops_total = 0
        self.sequences = 0
        self.benign = 0
        self.gen_stats = []
        self.samples = []
        self.violations = []   # dicts
        self.distinct = set()

    def run(self, driver, workdir):
        runs = self.cfg["quick_runs"] if self.tier == "quick" else self.cfg["thorough_runs"]
        for ri, r in enumerate(runs):
            tags = tuple(r.get("tags", ("verif",)))
            harness = build_harness(tags)
            seed = self.seed * 7919 + ri * 104729 + propcfg.pid_salt(self.pid)
            tag = "%s-%d" % (self.pid, ri)
            rc, ops, trace, stats, err = run_gen(harness, seed, r["nseq"], r["nops"], r["profile"], workdir, tag)
            ops_lines = open(ops).read().splitlines() if os.path.exists(ops) else []
            impl = open(trace, errors="replace").read() if os.path.exists(trace) else ""
            model_path = os.path.join(workdir, "model-%s.txt" % tag)
            run_driver(driver, ops, model_path)
            model = open(model_path, errors="replace").read()
            if os.path.exists(stats):
                try:
                    self.gen_stats.append(json.load(open(stats)))
                except Exception:
                    pass
            self.ops_total += len(ops_lines)
            seqs = sequences(ops_lines)
            self.sequences += len(seqs)
            self.evaluations += len(seqs)
            for s, e in seqs:
                self.distinct.add(hashlib.sha1("\n".join(ops_lines[s:e]).encode()).hexdigest())
            if seqs and len(self.samples) < 3:
                s, e = seqs[min(1, len(seqs) - 1)]
                self.samples.append({"profile": r["profile"], "tags": list(tags), "seed": seed,
                                     "ops": ops_lines[s:min(e, s + 40)]})
            facets = self.cfg["facets"]
            pa, pb = project(impl, ops_lines, facets), project(model, ops_lines, facets)
            crashed = rc != 0
            div = first_divergence(pa, pb)
            probs = self_checks(impl, ops_lines) if self.cfg.get("self_checks", True) else []
            if div is None and not crashed and not probs:
                if impl != model:
                    self.benign += 1
                continue
            # locate the failing sequence
            if div is not None:
                opn = op_number(pa if div < len(pa) else pb, div)
            elif probs:
                opn = probs[0][0]
            else:
                opn = len(ops_lines)
            seq = next(((s, e) for s, e in seqs if s < opn <= e), seqs[-1] if seqs else (0, 0))
            sub = ops_lines[seq[0]:min(seq[1], opn + 2)]
            self.violations.append(self.make_violation(harness, driver, sub, facets, tags, seed, r["profile"],
                                                       "self-check: " + probs[0][1] if (div is None and probs and not crashed) else None,
                                                       crashed and err))
            if len(self.violations) >= 3:
                break

    def make_violation(self, harness, driver, sub, facets, tags, seed, profile, selfmsg, crash_err):
        def differs(lines):
            rc, impl, _ = run_replay(harness, lines)
            if rc != 0:
                return True
            if "other:harness:" in impl:
                return False    # a malformed candidate (e.g. a component used before its `reg`), not the failure
            if self_checks(impl, lines) and self.cfg.get("self_checks", True):
                return True
            model = run_model(driver, lines)
            return project(impl, lines, facets) != project(model, lines, facets)
        head = [l for l in sub if l.startswith("world ")][:1]
        body = [l for l in sub if l.strip() and not l.startswith("world ")]
        shrunk = sub
        try:
            if differs(head + body):
                body = shrinker.ddmin(body, lambda ls: differs(head + ls))
                shrunk = head + body
        except Exception as ex:  # shrinking is best effort
            shrunk = sub
        rc, impl, err = run_replay(harness, shrunk)
        model = run_model(driver, shrunk)
        pa, pb = project(impl, shrunk, facets), project(model, shrunk, facets)
        d = first_divergence(pa, pb)
        return {
            "property": self.pid, "kind": "correspondence",
            "what": selfmsg or ("harness crashed: " + (crash_err or "")[:400] if rc != 0 else "implementation and model disagree on the property's projection"),
            "ops": shrunk, "tags": list(tags), "seed": seed, "profile": profile, "facets": facets,
            "expected_model": pb[max(0, (d or 0) - 2):(d or 0) + 6] if d is not None else [],
            "observed_impl": pa[max(0, (d or 0) - 2):(d or 0) + 6] if d is not None else [],
            "impl_trace": impl.splitlines()[-60:], "model_trace": model.splitlines()[-60:],
        }


# ----------------------------------------------------------------------------------------
# known findings
# ----------------------------------------------------------------------------------------

def load_known():
    if not os.path.exists(KNOWN):
        return {"findings": [], "fixed": []}
    return json.load(open(KNOWN))


def matches_known(v, known):
    for f in known.get("findings", []):
        if f.get("property") != v["property"]:
            continue
        pats = f.get("ops_patterns", [])
        ops = v.get("ops", [])
        i = 0
        for pat in pats:
            rx = re.compile(pat)
            while i < len(ops) and not rx.search(ops[i]):
                i += 1
            if i == len(ops):
                break
            i += 1
        else:
            obs = "\n".join(v.get("observed_impl", []) + [v.get("what", "")])
            if re.search(f.get("observed_pattern", ""), obs):
                return f
    return None


# ----------------------------------------------------------------------------------------
# main
# ----------------------------------------------------------------------------------------

def write_replay(v):
    os.makedirs(REPLAYS, exist_ok=True)
    h = hashlib.sha1(json.dumps(v, sort_keys=True).encode()).hexdigest()[:12]
    path = os.path.join(REPLAYS, "%s-%s.json" % (v["property"], h))
    with open(path, "w") as f:
        json.dump(v, f, indent=1)
    return path


def replay(pid, path):
    v = json.load(open(path))
    cfg = propcfg.PROPS[pid]
    if v.get("no_ops_replay"):
        print("replay %s: %s" % (path, v.get("what")))
        print("re-run: " + " ".join(v.get("ops", [])))
        return 1
    if not v.get("ops"):
        print("replay %s names a broken obligation, no operation sequence: %s" % (path, v.get("what")))
        return 1
    harness = build_harness(tuple(v.get("tags", ["verif"])))
    driver = build_driver()
    rc, impl, err = run_replay(harness, v["ops"])
    model = run_model(driver, v["ops"])
    facets = v.get("facets", cfg["facets"])
    pa, pb = project(impl, v["ops"], facets), project(model, v["ops"], facets)
    d = first_divergence(pa, pb)
    probs = self_checks(impl, v["ops"])
    print("\n".join(v["ops"]))
    if rc != 0:
        print("harness crashed:\n" + err[:2000]); return 1
    if d is None and not probs:
        print("replay: implementation and model agree on this history now")
        return 0
    print("--- implementation:"); print("\n".join(pa[max(0, (d or 0) - 3):(d or 0) + 8]))
    print("--- model (expected):"); print("\n".join(pb[max(0, (d or 0) - 3):(d or 0) + 8]))
    for p in probs:
        print("self-check: op %d: %s" % p)
    return 1


def main(argv):
    if len(argv) < 1:
        print(__doc__); return 2
    pid = argv[0]
    if pid not in propcfg.PROPS:
        print("unknown property", pid); return 2
    if "--replay" in argv:
        return replay(pid, argv[argv.index("--replay") + 1])
    tier = argv[1] if len(argv) > 1 else os.environ.get("VERIF_TIER", "quick")
    if tier not in ("quick", "thorough"):
        tier = "quick"
    seed = int(os.environ.get("VERIF_SEED", "1") or "1")
    cfg = propcfg.PROPS[pid]
    t0 = time.time()
    os.makedirs(CACHE, exist_ok=True)
    workdir = os.path.join(CACHE, "run-%s-%d" % (pid, os.getpid()))
    shutil.rmtree(workdir, ignore_errors=True)
    os.makedirs(workdir)
    violations, notes = [], []
    proof_info, regen_info = {}, {}
    corr = Correspondence(pid, cfg, tier, seed)
    try:
        # 1. regenerate + proofs (serialised across concurrently running checks: they share
        #    Ark/Generated and the lake build directory)
        import fcntl
        lockf = open(os.path.join(CACHE, "lean.lock"), "w")
        fcntl.flock(lockf, fcntl.LOCK_EX)
        try:
            regen_info = regenerate(templates=(pid == "C14"))
        except Failure as ex:
            regen_info = {"regenerated": False, "error": str(ex)[:2000]}
            violations.append({"property": pid, "kind": "tie", "what": "source fragment not translatable: " + str(ex)[:1500], "ops": []})
        ok, proof_info = proof_step(pid)
        if not ok:
            fp = regen_info.get("fragment_problems") or []
            violations.append({"property": pid, "kind": "proof",
                               "what": "proof obligations of Ark.Props.%s no longer check against the definitions regenerated from the source: %s%s" % (
                                   pid, "; ".join(proof_info.get("failed", []))[:1500],
                                   (" | source fragments the translator could not handle: " + "; ".join(fp)[:800]) if fp else ""),
                               "broken_theorems": proof_info.get("failed", []), "fragment_problems": fp, "ops": []})
        if tier == "thorough":
            lmods = ["Ark.Props." + pid] + ["Ark.Props." + pid + sfx for sfx in ("Src", "Top") if os.path.exists(os.path.join(LEAN, "Ark", "Props", pid + sfx + ".lean"))]
            for lm in lmods:
                rc, out, err = sh(["lake", "env", "leanchecker", lm], cwd=LEAN, timeout=1800)
                proof_info["leanchecker_rc"] = max(rc, proof_info.get("leanchecker_rc", 0))
                if rc != 0:
                    violations.append({"property": pid, "kind": "proof", "what": "leanchecker rejected %s: %s" % (lm, (out + err)[-500:]), "ops": []})
        # 2. correspondence
        driver = build_driver()
        # run against a private copy of the driver so that a concurrent rebuild cannot disturb it
        priv = os.path.join(workdir, "arkdriver")
        shutil.copy2(driver, priv)
        driver = priv
        fcntl.flock(lockf, fcntl.LOCK_UN)
        lockf.close()
        corr.run(driver, workdir)
        # a broken proof with a clean correspondence: search harder for a failing input
        if violations and not corr.violations and any(v["kind"] in ("proof", "tie") for v in violations):
            extra = Correspondence(pid, cfg, "thorough", seed + 17)
            extra.run(driver, workdir)
            corr.violations += extra.violations
            corr.evaluations += extra.evaluations
            corr.ops_total += extra.ops_total
            corr.distinct |= extra.distinct
        extra_info = {}
        if "extra" in cfg:
            extra_info = cfg["extra"](pid, tier, seed, workdir, driver, sys.modules[__name__])
            for v in extra_info.pop("violations", []):
                corr.violations.append(v)
    except Failure as ex:
        violations.append({"property": pid, "kind": "build", "what": str(ex)[:3000], "ops": []})
        extra_info = {}
    finally:
        shutil.rmtree(workdir, ignore_errors=True)

    # a concrete failing history, when there is one, is the replay for a broken obligation too
    final = []
    if corr.violations:
        for v in corr.violations:
            if violations:
                v["also_broken"] = [x["what"][:300] for x in violations]
            final.append(v)
    else:
        final = violations
    known = load_known()
    exit_code = 0
    reported = 0
    for v in final:
        kf = matches_known(v, known)
        if kf:
            print("KNOWN-FINDING: property=%s %s" % (pid, kf.get("what", kf.get("id", ""))))
            continue
        path = write_replay(v)
        suffix = "" if v.get("ops") else " no-failing-input-found"
        print("VIOLATION property=%s replay=%s%s" % (pid, path, suffix))
        print("  " + v["what"][:600].replace("\n", "\n  "))
        for l in v.get("ops", [])[:40]:
            print("    " + l)
        reported += 1
        exit_code = 1
    # known findings that are expected to reproduce are driven by their own targeted replays
    for f in known.get("findings", []):
        if f.get("property") == pid and f.get("always_print", True) and not any(matches_known(v, {"findings": [f]}) for v in final):
            rep = f.get("replay_ops")
            if rep:
                try:
                    harness = build_harness(tuple(f.get("tags", ["verif"])))
                    rc, impl, err = run_replay(harness, rep)
                    if re.search(f.get("observed_pattern", "$^"), impl):
                        print("KNOWN-FINDING: property=%s %s" % (pid, f.get("what", f.get("id", ""))))
                except Failure:
                    pass

    wall = time.time() - t0
    write_evidence(pid, tier, seed, cfg, proof_info, regen_info, corr, extra_info if 'extra_info' in dir() else {}, reported, wall)
    return exit_code


def merge_hist(stats, key):
    out = {}
    for s in stats:
        for k, v in (s.get(key) or {}).items():
            out[k] = out.get(k, 0) + v
    return out


def write_evidence(pid, tier, seed, cfg, proof_info, regen_info, corr, extra_info, nviol, wall):
    os.makedirs(EVIDENCE, exist_ok=True)
    axioms_seen = sorted({a for axs in proof_info.get("axioms", {}).values() for a in axs})
    cov = {
        "obligations": proof_info.get("obligations", 0),
        "discharged": proof_info.get("discharged", 0),
        "checker_cmd": "cd /verif/lean && lake build Ark.Props.%s && lake env lean Ark/Audit/%s.lean" % (pid, pid),
        "trusted_base": [
            "Lean 4 kernel (lake build); axioms used by the theorems of Ark.Props.%s: %s" % (pid, ", ".join(axioms_seen) or "none"),
            "tools/extract (Go source -> Ark/Generated/*.lean) and the shape expectations it checks",
            "correspondence harness /verif/harness + Driver/Main.lean + projection in tools/checklib.py (differential: agreement shown on executed runs only)",
        ] + cfg.get("modelled_not_verified", []),
        "theorems": proof_info.get("theorems", []),
        "axioms_per_theorem": proof_info.get("axioms", {}),
        "failed_obligations": proof_info.get("failed", []),
        "regeneration": regen_info,
        "lake_build_s": proof_info.get("lake_build_s"),
        "leanchecker_rc": proof_info.get("leanchecker_rc"),
        "traces_validated_against_impl": corr.sequences - len(corr.violations),
        "evaluations": corr.evaluations,
        "distinct_nontrivial": len(corr.distinct),
        "rule": "operation sequences from the state-aware generator (profiles %s), one PRNG seeded from VERIF_SEED; a sequence counts as distinct by the SHA-1 of its op lines and as non-trivial when it has at least one entity creation" % sorted({r["profile"] for r in cfg["quick_runs"] + cfg["thorough_runs"]}),
        "ops_executed": corr.ops_total,
        "op_kinds": merge_hist(corr.gen_stats, "op_kinds"),
        "panic_classes": merge_hist(corr.gen_stats, "panic_classes"),
        "relation_target_kinds": merge_hist(corr.gen_stats, "relation_target_kinds"),
        "typed_wide_arity": merge_hist(corr.gen_stats, "typed_wide_arity"),
        "max_alive": max([s.get("max_alive", 0) for s in corr.gen_stats] or [0]),
        "max_archetypes": max([s.get("max_archetypes", 0) for s in corr.gen_stats] or [0]),
        "benign_raw_divergences": corr.benign,
        "facets_compared": cfg["facets"],
        "samples": corr.samples or [{"note": "no sequence generated"}],
    }
    cov.update(extra_info or {})
    ev = {
        "property_id": pid, "tier": tier, "seed": seed, "level": "proof",
        "coverage": cov,
        "assumptions": cfg.get("assumptions", []),
        "wall_s": round(wall, 1),
        "violations": nviol,
    }
    with open(os.path.join(EVIDENCE, pid + ".json"), "w") as f:
        json.dump(ev, f, indent=1)
