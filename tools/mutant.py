#!/usr/bin/env python3
"""mutant.py verify <src-dir> <n> <prop> <id>   — confirm a seeded change in a scratch worktree and
                                                  store it as /verif/seeded/<id>/
   mutant.py detect <id> [props...] [--tier quick] — apply it to /repo, run the checks, undo it."""
import json, os, shutil, subprocess, sys, time

VERIF = os.path.dirname(os.path.dirname(os.path.abspath(__file__)))
SEEDED = os.path.join(VERIF, "seeded")
ENV = dict(os.environ, GOFLAGS="-mod=mod", GOPROXY="off")


def sh(cmd, cwd=None, timeout=1800):
    p = subprocess.run(cmd, cwd=cwd, env=ENV, capture_output=True, timeout=timeout, shell=isinstance(cmd, str))
    return p.returncode, (p.stdout + p.stderr).decode(errors="replace")


def verify(src, n, prop, mid):
    patch = os.path.join(src, f"patch{n}.diff")
    demo = os.path.join(src, f"demo{n}_test.go")
    notes = os.path.join(src, f"notes{n}.md")
    wt = f"/tmp/mv-{mid}"
    sh(["git", "-C", "/repo", "worktree", "remove", "--force", wt])
    rc, out = sh(["git", "-C", "/repo", "worktree", "add", "-q", "--detach", wt, "HEAD"])
    assert rc == 0, out
    res = {}
    try:
        pkg = "ecs"
        shutil.copy(demo, os.path.join(wt, pkg, f"zz_demo{n}_test.go"))
        rc, out = sh(["go", "test", "-count=1", "-run", f"TestDemo{n}$", "./ecs/"], cwd=wt)
        res["demo_unpatched_passes"] = rc == 0
        res["demo_unpatched_out"] = out[-600:]
        rc, out = sh(["git", "apply", patch], cwd=wt)
        res["patch_applies"] = rc == 0
        if rc != 0:
            res["apply_out"] = out[-600:]
            return res
        rc, out = sh(["go", "test", "-count=1", "-run", f"TestDemo{n}$", "./ecs/"], cwd=wt)
        res["demo_patched_fails"] = rc != 0
        res["demo_patched_out"] = out[-900:]
        os.remove(os.path.join(wt, pkg, f"zz_demo{n}_test.go"))
        rc, out = sh(["go", "test", "-count=1", "./..."], cwd=wt)
        res["suite_passes_with_patch"] = rc == 0
        res["suite_out"] = out[-400:]
        rc, out = sh(["git", "diff", "--stat"], cwd=wt)
        res["diffstat"] = out.strip()
    finally:
        sh(["git", "-C", "/repo", "worktree", "remove", "--force", wt])
    ok = res.get("demo_unpatched_passes") and res.get("patch_applies") and res.get("demo_patched_fails") and res.get("suite_passes_with_patch")
    res["confirmed"] = bool(ok)
    if ok:
        d = os.path.join(SEEDED, mid)
        os.makedirs(d, exist_ok=True)
        shutil.copy(patch, os.path.join(d, "patch.diff"))
        shutil.copy(demo, os.path.join(d, "demo_test.go"))
        if os.path.exists(notes):
            shutil.copy(notes, os.path.join(d, "notes.md"))
        meta = {"id": mid, "property": prop, "demo_test": f"TestDemo{n}",
                "needs_to_manifest": "see notes.md",
                "confirmed": {k: res[k] for k in ("demo_unpatched_passes", "demo_patched_fails", "suite_passes_with_patch")},
                "ran": ["go test -run TestDemo%s$ ./ecs/ (unpatched: pass; patched: fail)" % n, "go test ./... (patched: pass)"],
                "diffstat": res.get("diffstat"), "detected_by": {}}
        json.dump(meta, open(os.path.join(d, "meta.json"), "w"), indent=1)
    return res


def detect(mid, props, tier="quick"):
    d = os.path.join(SEEDED, mid)
    meta = json.load(open(os.path.join(d, "meta.json")))
    if not props:
        props = [meta["property"]]
    # SEED_LANE=<dir>: run in <dir>/repo (a worktree of /repo) with <dir>/verif (a worktree of /verif)
    # instead of /repo and /verif, so that other checks can run on the unchanged tree meanwhile
    lane = os.environ.get("SEED_LANE")
    repo, verif, env = "/repo", VERIF, None
    if lane:
        repo, verif = os.path.join(lane, "repo"), os.path.join(lane, "verif")
        ENV["VERIF_REPO"] = repo
    rc, out = sh(["git", "-C", repo, "status", "--porcelain"])
    assert out.strip() == "", repo + " not clean: " + out
    rc, out = sh(["git", "-C", repo, "apply", os.path.join(d, "patch.diff")])
    assert rc == 0, out
    results = {}
    try:
        for p in props:
            t0 = time.time()
            rc, out = sh([os.path.join(verif, "check"), p, tier], cwd=verif, timeout=3600)
            lines = [l for l in out.splitlines() if l.startswith("VIOLATION") or l.startswith("KNOWN")]
            results[p] = {"exit": rc, "lines": lines[:5], "s": round(time.time() - t0, 1)}
            print(p, rc, lines[:2], flush=True)
    finally:
        sh(["git", "-C", repo, "checkout", "--", "."])
    meta.setdefault("detected_by", {})
    for p, r in results.items():
        meta["detected_by"][p + ":" + tier] = {"detected": r["exit"] == 1, "report": r["lines"][:2]}
    json.dump(meta, open(os.path.join(d, "meta.json"), "w"), indent=1)
    return results


if __name__ == "__main__":
    if sys.argv[1] == "verify":
        r = verify(sys.argv[2], sys.argv[3], sys.argv[4], sys.argv[5])
        print(json.dumps({k: v for k, v in r.items() if not k.endswith("_out")}, indent=1))
        if not r.get("confirmed"):
            print(json.dumps({k: v for k, v in r.items() if k.endswith("_out")}, indent=1))
    elif sys.argv[1] == "detect":
        args = sys.argv[2:]
        tier = "quick"
        if "--tier" in args:
            i = args.index("--tier"); tier = args[i + 1]; del args[i:i + 2]
        detect(args[0], args[1:], tier)
