#!/usr/bin/env python3
"""Writes /verif/MANIFEST.json from tools/propcfg.py, tools/proptext.py and the Props files present."""
import json, os, sys
sys.path.insert(0, os.path.dirname(os.path.abspath(__file__)))
import propcfg, proptext
VERIF = os.path.dirname(os.path.dirname(os.path.abspath(__file__)))

checks, na = [], []
for pid in sorted(propcfg.PROPS):
    have = os.path.exists(os.path.join(VERIF, "lean", "Ark", "Props", pid + ".lean"))
    t = proptext.TEXT.get(pid)
    if not have or not t:
        na.append({"property_id": pid, "reason": "check not built yet in this round: theorems for this property are still being written (see DESIGN.md §6); nothing is claimed for it"})
        continue
    checks.append({
        "property_id": pid,
        "quick_cmd": "./check %s quick" % pid,
        "thorough_cmd": "./check %s thorough" % pid,
        "evidence_file": "/verif/evidence/%s.json" % pid,
        "replay_cmd_template": "./check %s --replay {path}" % pid,
        "engine": "check",
        "level_claimed": {"category": "proof", "text": t["level"], "design_ref": t.get("ref", "DESIGN.md §6 " + pid)},
        "level_note": t["note"],
        "technique": t["technique"],
    })

manifest = {
    "version": 1,
    "setup_cmd": "./setup",
    "hooks": {
        "guard": "verif",
        "enable": "go build -tags verif (the harness is built with -tags verif[,ark_tiny][,ark_debug] against /repo's working tree)",
        "baseline_off_cmd": "cd /repo && GOFLAGS=-mod=mod go test -json -vet=off -count=1 -timeout 25m ./...",
        "source_commits": proptext.HOOK_COMMITS,
        "add_only": True,
    },
    "engines": [{
        "name": "check", "path": "/verif/check",
        "serves_properties": [c["property_id"] for c in checks],
        "kind_free_text": "Lean 4 proofs about a hand-written executable model of ark's core (lean/Ark), definitions of decision logic regenerated from the Go source on every run (tools/extract -> lean/Ark/Generated), and a correspondence check that runs the model (lean_exe arkdriver) and the real ecs package (harness) on the same generated operation sequences and compares per-property projections of the traces",
    }],
    "checks": checks,
    "not_applicable": na,
    "notes": "Genuine defects found and repaired in /repo are listed in /verif/known_findings.json (fixed: entries) and DESIGN.md §7.",
}
with open(os.path.join(VERIF, "MANIFEST.json"), "w") as f:
    json.dump(manifest, f, indent=1)
print("checks:", [c["property_id"] for c in checks], "not_applicable:", [n["property_id"] for n in na])
