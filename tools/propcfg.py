"""Per-property configuration of the check: which facets of the traces are compared, which
generator profiles run in which tier, what is assumed."""
import zlib

# files in which bv_decide is tolerated (none at the moment: all word-level lemmas are kernel-only)
BV_DECIDE_ALLOWED = set()
BV_DECIDE_THEOREMS = set()


def pid_salt(pid):
    return zlib.crc32(pid.encode()) % 1000


def runs(profiles, nseq, nops, tags=("verif",)):
    return [{"profile": p, "nseq": nseq, "nops": nops, "tags": list(tags)} for p in profiles]


COMMON_ASSUME = [
    "component payloads are abstracted to one value token per component; unsafe.Pointer arithmetic, reflect copies and the byte layout are exercised by the harness only",
    "entity generations are naturals in the model (fewer than 2^32 recycles of one ID)",
]

UNVERIFIED = [
    "modelled, not verified: unsafe pointer arithmetic, reflect allocation/copy, Go slice aliasing of pooled scratch buffers, pointer invalidation on re-allocation (covered by correspondence runs crossing the re-allocation boundaries)",
]


def prop(facets, quick, thorough, **kw):
    d = {"facets": facets, "quick_runs": quick, "thorough_runs": thorough,
         "assumptions": COMMON_ASSUME + kw.pop("assumptions", []),
         "modelled_not_verified": UNVERIFIED + kw.pop("unverified", [])}
    d.update(kw)
    return d


ALL = ["res", "handles", "alive", "snap", "query", "cursor", "log", "locked", "stats", "shrink", "registry", "resources"]

PROPS = {
    "C01": prop(["res", "snap", "query", "cursor"],
                runs(["generic", "noobs"], 250, 120), runs(["generic", "noobs", "relations", "batch"], 600, 150)),
    "C02": prop(["res", "handles", "alive", "stats"],
                runs(["pool", "generic"], 250, 120), runs(["pool", "generic", "batch"], 600, 150)),
    "C03": prop(["res", "query", "cursor", "snap"],
                runs(["queries", "relations"], 250, 120), runs(["queries", "relations", "generic"], 600, 150)),
    "C04": prop(["res", "snap", "query"],
                runs(["relations", "generic"], 250, 120), runs(["relations", "batch", "generic"], 600, 150)),
    "C05": prop(["res", "query", "cursor"],
                runs(["cache", "relations"], 250, 120), runs(["cache", "relations", "generic"], 600, 150)),
    "C06": prop(["res", "snap", "log"],
                runs(["batch", "relations"], 250, 120), runs(["batch", "relations", "generic"], 600, 150)),
    "C07": prop(["res", "locked", "cursor", "log"],
                runs(["lock", "generic"], 250, 120), runs(["lock", "generic", "observers"], 600, 150)),
    "C08": prop(["res", "log"],
                runs(["observers", "generic"], 250, 120), runs(["observers", "generic", "batch"], 600, 150)),
    "C09": prop(["res", "log", "locked", "snap"],
                runs(["observers", "batch"], 250, 120), runs(["observers", "batch", "relations"], 600, 150)),
    "C10": prop(["res", "snap", "locked", "stats"],
                runs(["stale", "generic"], 250, 120), runs(["stale", "generic", "relations"], 600, 150)),
    "C11": prop(["res", "snap", "query"],
                runs(["memory", "generic"], 250, 120), runs(["memory", "generic", "relations"], 600, 150)),
    "C12": prop(ALL, runs(["generic", "relations"], 150, 120), runs(["generic", "relations", "batch", "observers"], 300, 150)),
    "C13": prop(["res", "query", "locked"], runs(["queries"], 100, 100), runs(["queries", "cache"], 200, 120)),
    "C14": prop(["res", "snap", "query", "cursor", "log"],
                runs(["typed", "generic"], 250, 120), runs(["typed", "generic", "batch"], 600, 150)),
    "C15": prop(["res", "snap", "query", "shrink", "stats", "cursor"],
                runs(["shrink", "relations"], 250, 120), runs(["shrink", "relations", "cache"], 600, 150)),
    "C16": prop(["res", "snap", "alive", "stats", "log", "query"],
                runs(["reset", "generic"], 250, 120), runs(["reset", "generic", "observers"], 600, 150)),
    "C17": prop(["res", "handles", "alive", "snap"],
                runs(["dump", "pool"], 250, 120), runs(["dump", "pool", "generic"], 600, 150)),
    "C18": prop(["res", "registry", "resources", "snap", "query"],
                runs(["registry", "generic"], 150, 120), runs(["registry", "generic"], 400, 150)),
    "C19": prop(["res", "stats"],
                runs(["stats", "relations"], 250, 120), runs(["stats", "relations", "generic"], 600, 150)),
    "C20": prop(ALL, runs(["tiny"], 150, 120), runs(["tiny", "tiny"], 300, 150)),
}
