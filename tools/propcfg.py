"""Per-property configuration of the check: which facets of the traces are compared, which
generator profiles run in which tier, what is assumed."""
import zlib

# files in which bv_decide is tolerated (none at the moment: all word-level lemmas are kernel-only)
BV_DECIDE_ALLOWED = set()
BV_DECIDE_THEOREMS = set()


def pid_salt(pid):
    return zlib.crc32(pid.encode()) % 1000


def runs(profiles, nseq, nops, tags=("verif",)):
    return [{"profile": p, "nseq": nseq, "nops": nops, "tags": list(tags)} for p in profiles]


COMMON_ASSUME = [
    "component payloads are abstracted to one value token per component; unsafe.Pointer arithmetic, reflect copies and the byte layout are exercised by the harness only",
    "entity generations are naturals in the model (fewer than 2^32 recycles of one ID)",
]

UNVERIFIED = [
    "modelled, not verified: unsafe pointer arithmetic, reflect allocation/copy, Go slice aliasing of pooled scratch buffers, pointer invalidation on re-allocation (covered by correspondence runs crossing the re-allocation boundaries)",
]


def prop(facets, quick, thorough, **kw):
    d = {"facets": facets, "quick_runs": quick, "thorough_runs": thorough,
         "assumptions": COMMON_ASSUME + kw.pop("assumptions", []),
         "modelled_not_verified": UNVERIFIED + kw.pop("unverified", [])}
    d.update(kw)
    return d


ALL = ["res", "handles", "alive", "snap", "query", "cursor", "log", "locked", "stats", "shrink", "registry", "resources"]

PROPS = {
    "C01": prop(["res", "snap", "query", "cursor"],
                runs(["generic", "noobs"], 250, 120), runs(["generic", "noobs", "relations", "batch"], 2500, 200)),
    "C02": prop(["res", "handles", "alive", "stats"],
                runs(["pool", "generic", "dump"], 200, 120), runs(["pool", "generic", "batch", "dump"], 2500, 200)),
    "C03": prop(["res", "query", "cursor", "snap"],
                runs(["queries", "relations"], 250, 120), runs(["queries", "relations", "generic"], 2500, 200)),
    "C04": prop(["res", "snap", "query"],
                runs(["relations", "generic"], 250, 120), runs(["relations", "batch", "generic"], 2500, 200)),
    "C05": prop(["res", "query", "cursor"],
                runs(["cache", "relations"], 250, 120), runs(["cache", "relations", "generic"], 2500, 200)),
    "C06": prop(["res", "snap", "log"],
                runs(["batch", "relations"], 250, 120), runs(["batch", "relations", "generic"], 2500, 200)),
    "C07": prop(["res", "locked", "cursor", "log"],
                runs(["lock", "generic"], 250, 120), runs(["lock", "generic", "observers"], 2500, 200)),
    "C08": prop(["res", "log"],
                runs(["observers", "generic"], 250, 120), runs(["observers", "generic", "batch"], 2500, 200)),
    "C09": prop(["res", "log", "locked", "snap"],
                runs(["observers", "batch"], 250, 120), runs(["observers", "batch", "relations"], 2500, 200)),
    "C10": prop(["res", "snap", "locked", "stats"],
                runs(["stale", "generic"], 250, 120), runs(["stale", "generic", "relations"], 2500, 200)),
    "C11": prop(["res", "snap", "query"],
                runs(["memory", "generic"], 250, 120), runs(["memory", "generic", "relations"], 2500, 200)),
    "C12": prop(ALL, runs(["generic", "relations"], 150, 120), runs(["generic", "relations", "batch", "observers"], 1200, 200)),
    "C13": prop(["res", "query", "locked"], runs(["queries"], 100, 100), runs(["queries", "cache"], 800, 150)),
    "C14": prop(["res", "snap", "query", "cursor", "log"],
                runs(["typed", "generic"], 250, 120), runs(["typed", "generic", "batch"], 2500, 200)),
    "C15": prop(["res", "snap", "query", "shrink", "stats", "cursor"],
                runs(["shrink", "relations"], 250, 120), runs(["shrink", "relations", "cache"], 2500, 200)),
    "C16": prop(["res", "snap", "alive", "stats", "log", "query"],
                runs(["reset", "generic"], 250, 120), runs(["reset", "generic", "observers"], 2500, 200)),
    "C17": prop(["res", "handles", "alive", "snap"],
                runs(["dump", "pool"], 250, 120), runs(["dump", "pool", "generic"], 2500, 200)),
    "C18": prop(["res", "registry", "resources", "snap", "query"],
                runs(["registry", "generic"], 150, 120), runs(["registry", "generic"], 1500, 200)),
    "C19": prop(["res", "stats"],
                runs(["stats", "relations"], 250, 120), runs(["stats", "relations", "generic"], 2500, 200)),
    "C20": prop(ALL, runs(["tiny"], 150, 120), runs(["tiny", "tiny"], 1200, 200)),
}


# ---------------------------------------------------------------------------------------------
# extra steps of individual properties
# ---------------------------------------------------------------------------------------------
import os, subprocess, json, hashlib


def _gen_ops(lib, harness, seed, nseq, nops, profile, workdir, tag):
    rc, ops, trace, stats, err = lib.run_gen(harness, seed, nseq, nops, profile, workdir, tag)
    lines = open(ops).read().splitlines() if os.path.exists(ops) else []
    return rc, lines, (open(trace, errors="replace").read() if os.path.exists(trace) else ""), err


def _replay_file(harness, ops_lines, extra_args=(), timeout=600):
    data = ("\n".join(ops_lines) + "\n").encode()
    env = dict(os.environ, GOTRACEBACK="none")
    p = subprocess.run([harness, "-mode", "replay"] + list(extra_args), input=data, capture_output=True, timeout=timeout, env=env)
    return p.returncode, p.stdout.decode(errors="replace"), p.stderr.decode(errors="replace")


def _first_diff_seq(lib, ops_lines, a, b):
    """the op sequence (world-delimited) containing the first differing trace line"""
    la, lb = a.splitlines(), b.splitlines()
    idx = next((i for i, (x, y) in enumerate(zip(la, lb)) if x != y), min(len(la), len(lb)))
    opn = lib.op_number(la if idx < len(la) else lb, idx)
    seqs = lib.sequences(ops_lines)
    s, e = next(((s, e) for s, e in seqs if s < opn <= e), seqs[-1] if seqs else (0, 0))
    return ops_lines[s:min(e, opn + 1)], la[max(0, idx - 2):idx + 4], lb[max(0, idx - 2):idx + 4]


def extra_c12(pid, tier, seed, workdir, driver, lib):
    """the same history in K separate processes and twice in one process: byte-identical traces"""
    harness = lib.build_harness(("verif",))
    k = 4 if tier == "quick" else 12
    info = {"processes": k, "determinism_histories": 0}
    viol = []
    for ri, profile in enumerate(["generic", "relations"] if tier == "quick" else ["generic", "relations", "batch", "observers", "shrink"]):
        rc, ops, impl, err = _gen_ops(lib, harness, seed * 31 + ri + 5, 60 if tier == "quick" else 200, 120, profile, workdir, "c12-%d" % ri)
        info["determinism_histories"] += len(lib.sequences(ops))
        ref = None
        for proc in range(k):
            rc2, out, err2 = _replay_file(harness, ops, ("-repeat", "2") if proc == 0 else ())
            if proc == 0:
                parts = out.split("=== repeat 1\n")
                out = parts[0]
                if len(parts) != 2 or parts[1] != parts[0]:
                    sub, x, y = _first_diff_seq(lib, ops, parts[0], parts[1] if len(parts) == 2 else "")
                    viol.append({"property": pid, "kind": "determinism", "what": "two worlds in one process given the same history differ", "ops": sub, "expected_model": x, "observed_impl": y, "facets": ALL, "tags": ["verif"]})
                    break
            if ref is None:
                ref = out
                if out != impl:
                    sub, x, y = _first_diff_seq(lib, ops, impl, out)
                    viol.append({"property": pid, "kind": "determinism", "what": "replaying the generated history in a new process gives a different trace", "ops": sub, "expected_model": x, "observed_impl": y, "facets": ALL, "tags": ["verif"]})
                    break
            elif out != ref:
                sub, x, y = _first_diff_seq(lib, ops, ref, out)
                viol.append({"property": pid, "kind": "determinism", "what": "the same history executed in two processes gives different traces (handles, iteration order or statistics)", "ops": sub, "expected_model": x, "observed_impl": y, "facets": ALL, "tags": ["verif"]})
                break
    info["violations"] = viol
    return info


def extra_c13(pid, tier, seed, workdir, driver, lib):
    """race-detector run of the concurrent query scenario"""
    harness = lib.build_harness(("verif",), race=True)
    rounds = 15 if tier == "quick" else 150
    env = dict(os.environ, GORACE="halt_on_error=0 exitcode=66", GOTRACEBACK="single")
    viol = []
    info = {"race_detector_rounds": 0, "race_reports": 0}
    for i in range(2 if tier == "quick" else 6):
        try:
            p = subprocess.run([harness, "-mode", "conc", "-seed", str(seed * 13 + i), "-nseq", str(rounds)], capture_output=True, timeout=900, env=env)
            out, err, rc = p.stdout.decode(errors="replace"), p.stderr.decode(errors="replace"), p.returncode
        except subprocess.TimeoutExpired:
            out, err, rc = "", "timeout (dead-lock?)", 124
        info["race_detector_rounds"] += rounds
        races = err.count("WARNING: DATA RACE")
        info["race_reports"] += races
        if rc != 0 or races or "FAIL" in out:
            what = "data race reported by the race detector" if races else ("concurrent queries returned wrong results or left the world locked" if "FAIL" in out else "concurrent scenario crashed or hung")
            viol.append({"property": pid, "kind": "concurrency", "what": what + ": " + (out[-600:] + err[-1500:]),
                         "ops": ["harness -mode conc -seed %d -nseq %d  (built with -race)" % (seed * 13 + i, rounds)],
                         "observed_impl": (out + err).splitlines()[-30:], "expected_model": ["ok rounds=%d" % rounds], "facets": [], "tags": ["verif", "race"],
                         "no_ops_replay": True})
            break
    info["violations"] = viol
    return info


def extra_c20(pid, tier, seed, workdir, driver, lib):
    """the same histories (<= 64 component types, including misuse) under the four tag combinations"""
    builds = [("verif",), ("verif", "ark_tiny"), ("verif", "ark_debug"), ("verif", "ark_tiny", "ark_debug")]
    bins = [lib.build_harness(b) for b in builds]
    viol = []
    info = {"builds_compared": ["+".join(b) for b in builds], "cross_build_histories": 0}
    for ri in range(2 if tier == "quick" else 6):
        rc, ops, impl, err = _gen_ops(lib, bins[0], seed * 17 + ri + 3, 80 if tier == "quick" else 300, 120, "tiny", workdir, "c20-%d" % ri)
        info["cross_build_histories"] += len(lib.sequences(ops))
        for b, hb in zip(builds[1:], bins[1:]):
            rc2, out, err2 = _replay_file(hb, ops)
            if out != impl or rc2 != 0:
                sub, x, y = _first_diff_seq(lib, ops, impl, out)
                viol.append({"property": pid, "kind": "build-equivalence",
                             "what": "builds %s and %s differ on the same history%s" % ("+".join(builds[0]), "+".join(b), " (crash: %s)" % err2[-300:] if rc2 != 0 else ""),
                             "ops": sub, "expected_model": x, "observed_impl": y, "facets": ALL, "tags": list(b)})
                break
        if viol:
            break
    info["violations"] = viol
    return info


PROPS["C12"]["extra"] = extra_c12
PROPS["C13"]["extra"] = extra_c13
PROPS["C20"]["extra"] = extra_c20


def extra_c11(pid, tier, seed, workdir, driver, lib):
    """GC soak: pointer-bearing components moved/grown/shrunk/reset under an aggressive collector"""
    harness = lib.build_harness(("verif",))
    rounds = 60 if tier == "quick" else 600
    env = dict(os.environ, GOTRACEBACK="single", GOGC="1")
    viol = []
    info = {"gc_soak_rounds": 0}
    for i in range(2 if tier == "quick" else 5):
        try:
            p = subprocess.run([harness, "-mode", "gcsoak", "-seed", str(seed * 7 + i), "-nseq", str(rounds)], capture_output=True, timeout=900, env=env)
            out, err, rc = p.stdout.decode(errors="replace"), p.stderr.decode(errors="replace"), p.returncode
        except subprocess.TimeoutExpired:
            out, err, rc = "", "timeout", 124
        info["gc_soak_rounds"] += rounds
        info["gc_soak_last"] = out.strip().splitlines()[-1:] if out.strip() else []
        if rc != 0:
            viol.append({"property": pid, "kind": "gc-soak", "what": "pointer-bearing components lost their data, or data of removed components was not collected: " + (out[-600:] + err[-800:]),
                         "ops": ["harness -mode gcsoak -seed %d -nseq %d" % (seed * 7 + i, rounds)], "observed_impl": (out + err).splitlines()[-20:],
                         "expected_model": ["ok …"], "facets": [], "tags": ["verif"], "no_ops_replay": True})
            break
    info["violations"] = viol
    return info


PROPS["C11"]["extra"] = extra_c11


# ---------------------------------------------------------------------------------------------
# C16, stated directly on the implementation: the history after a successful Reset gives the same
# projected trace on the reset world and on a NEW world with the same registrations.
# ---------------------------------------------------------------------------------------------
_C16_FACETS = ["res", "snap", "alive", "log", "query", "locked"]
_DEFINES = {"new": 1, "new0": 1, "copy": 1}


def _c16_filter(prelude, suffix):
    """keeps the definitions of the prelude that do not depend on entities of the previous epoch, and
    the ops of the suffix that only mention entities, queries, dumps, filters and observers that
    exist on both sides"""
    import re as _re
    filters, observers = set(), set()
    pre = []
    for l in prelude:
        toks = l.split()
        op = toks[0]
        if op in ("filter", "obs"):
            if _re.search(r"\be\d+\b", l):
                continue
            refs = set(_re.findall(r"\bf\d+\b", " ".join(toks[2:])))
            if not refs <= filters:
                continue
            # un-registering / registering another observer from a callback needs that observer
            orefs = set(_re.findall(r"\bo\d+\b", " ".join(toks[2:]))) - {toks[1]}
            if not orefs <= observers:
                continue
            (filters if op == "filter" else observers).add(toks[1])
        pre.append(l)
    ents, queries, dumps = set(), set(), set()
    keep = []
    for l in suffix:
        toks = l.split()
        if not toks:
            continue
        op = toks[0]
        if op in ("world", "reset"):
            break
        defs = set()
        if op in ("new", "new0", "copy") and len(toks) > 1:
            defs.add(toks[1])
        if op in ("newb", "new0b") and len(toks) > 2 and toks[2].isdigit() and toks[1][1:].isdigit():
            base = int(toks[1][1:])
            defs |= {"e%d" % (base + i) for i in range(int(toks[2]))}
        rest = " ".join(toks[1:])
        used = set(_re.findall(r"\be\d+\b", rest)) - defs
        qs = set(_re.findall(r"\bq\d+\b", rest))
        ds = set(_re.findall(r"\bd\d+\b", rest))
        fs = set(_re.findall(r"\bf\d+\b", rest))
        os_ = set(_re.findall(r"\bo\d+\b", rest))
        if op == "qopen" and len(toks) > 1:
            qs.discard(toks[1])
        if op == "dump" and len(toks) > 1:
            ds.discard(toks[1])
        if op == "filter" and len(toks) > 1:
            fs.discard(toks[1])
        if op == "obs" and len(toks) > 1:
            os_.discard(toks[1])
        if not used <= ents or not qs <= queries or not ds <= dumps or not fs <= filters or not os_ <= observers:
            continue
        keep.append(l)
        ents |= defs
        if op == "qopen" and len(toks) > 1:
            queries.add(toks[1])
        if op == "dump" and len(toks) > 1:
            dumps.add(toks[1])
        if op == "filter" and len(toks) > 1:
            filters.add(toks[1])
        if op == "obs" and len(toks) > 1:
            observers.add(toks[1])
    return pre, keep


def extra_c16(pid, tier, seed, workdir, driver, lib):
    """after Reset every history has the same outcome as on a new world with the same component
    types registered in the same order (compared on the implementation itself)"""
    harness = lib.build_harness(("verif",))
    info = {"reset_vs_new_world_histories": 0, "reset_vs_new_world_ops": 0}
    viol = []
    profiles = ["reset", "reset"] if tier == "quick" else ["reset", "reset", "generic", "observers", "relations", "batch"]
    for ri, profile in enumerate(profiles):
        rc, ops, impl, err = _gen_ops(lib, harness, seed * 37 + ri + 11, 120 if tier == "quick" else 600, 140, profile, workdir, "c16-%d" % ri)
        results = {n: res for n, res, _, _ in lib.parse_blocks(impl)}
        batch_a, batch_b, index = [], [], []
        for s, e in lib.sequences(ops):
            seq = ops[s:e]
            resets = [i for i, l in enumerate(seq) if l.split()[:1] == ["reset"] and results.get(s + i + 1, "").startswith("ok")]
            if not resets:
                continue
            # `rebuild c r rot` re-registers the component types in another order and keeps the observer
            # objects: the prelude construction below does not reproduce that; such histories are left out
            if any(l.split()[:1] == ["rebuild"] and l.split()[-1:] == ["rot"] for l in seq):
                continue
            cut = resets[-1]
            prefix = seq[:cut + 1]
            # `rebuild c r` replaces the world by a NEW one (same registrations, other capacities):
            # filter and observer objects defined before it belong to the old world and are gone
            rebuilds = [i for i, l in enumerate(prefix) if l.split()[:1] == ["rebuild"] and results.get(s + i + 1, "").startswith("ok")]
            last_rb = rebuilds[-1] if rebuilds else -1
            prelude = []
            for i, l in enumerate(prefix):
                t = l.split()
                if not t or t[0] not in ("world", "reg", "fill", "filter", "obs"):
                    continue
                if t[0] != "world" and not results.get(s + i + 1, "").startswith("ok"):
                    continue
                if t[0] in ("filter", "obs") and i < last_rb:
                    continue
                if t[0] == "world" and last_rb >= 0:
                    rb = prefix[last_rb].split()
                    t = [t[0], rb[1], rb[2]] + t[3:]
                    l = " ".join(t)
                prelude.append(l)
            prelude, suffix = _c16_filter(prelude, seq[cut + 1:])
            if len(suffix) < 3:
                continue
            index.append((len(batch_a), len(prefix), len(batch_b), len(prelude), len(suffix), prefix, prelude, suffix))
            batch_a += prefix + suffix
            batch_b += prelude + suffix
        if not index:
            continue
        rca, outa, erra = _replay_file(harness, batch_a)
        rcb, outb, errb = _replay_file(harness, batch_b)
        pa = {n: (res, logs, snap) for n, res, logs, snap in lib.parse_blocks(outa)}
        pb = {n: (res, logs, snap) for n, res, logs, snap in lib.parse_blocks(outb)}
        for offa, lp, offb, lq, ls, prefix, prelude, suffix in index:
            info["reset_vs_new_world_histories"] += 1
            info["reset_vs_new_world_ops"] += ls
            # a batch operation that panics does so at the first offending table, and tables are
            # visited in creation order, which legitimately differs between the two worlds ("up to
            # iteration order"): both must panic, the class and everything later are not compared
            cutoff = ls
            for k in range(ls):
                if suffix[k].split()[0] in ("xchgb", "setrelb", "delb", "newb", "new0b"):
                    ra = pa.get(offa + lp + k + 1, ("",))[0]
                    rb = pb.get(offb + lq + k + 1, ("",))[0]
                    if ra.startswith("panic") or rb.startswith("panic"):
                        cutoff = k
                        if ra.startswith("panic") != rb.startswith("panic"):
                            cutoff = k + 1   # one panics, the other does not: compared (and different)
                        break

            def proj(blocks, off):
                out = []
                for k in range(cutoff):
                    b = blocks.get(off + k + 1)
                    if b is None:
                        out.append("#%d <missing>" % (k + 1))
                        continue
                    res, logs, snap = b
                    opname = suffix[k].split()[0]
                    if opname in ("qnext", "qget", "qgetc", "qat"):
                        # what a cursor points at depends on the iteration order
                        out.append("#%d cursor-op" % (k + 1))
                    else:
                        out.append("#%d %s" % (k + 1, lib.canon_result(res, opname, _C16_FACETS)))
                    out.extend(lib.group_logs(logs, _C16_FACETS))
                    if snap is not None:
                        out.append("  S " + snap)
                return out
            xa, xb = proj(pa, offa + lp), proj(pb, offb + lq)
            if xa != xb:
                d = next((i for i, (x, y) in enumerate(zip(xa, xb)) if x != y), min(len(xa), len(xb)))
                viol.append({"property": pid, "kind": "reset-vs-new-world",
                             "what": "the history after Reset behaves differently on the reset world than on a new world with the same registrations",
                             "ops": prefix + suffix, "ops_new_world": prelude + suffix,
                             "expected_model": xb[max(0, d - 2):d + 5], "observed_impl": xa[max(0, d - 2):d + 5],
                             "facets": _C16_FACETS, "tags": ["verif"], "no_ops_replay": True})
                break
        if viol:
            break
    info["violations"] = viol
    return info


PROPS["C16"]["extra"] = extra_c16
