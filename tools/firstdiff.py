#!/usr/bin/env python3
"""firstdiff.py <ops> <impl-trace> <model-trace>: show the first diverging op with context."""
import sys, re
ops = open(sys.argv[1]).read().splitlines()
def blocks(path):
    out, cur = {}, None
    for line in open(path, errors="replace").read().splitlines():
        m = re.match(r"#(\d+) ", line)
        if m:
            cur = int(m.group(1)); out[cur] = [line]
        elif cur is not None:
            out[cur].append(line)
    return out
a, b = blocks(sys.argv[2]), blocks(sys.argv[3])
# ops lines map 1:1 to step numbers for non-empty lines; the counter restarts never
nonempty = [l for l in ops if l.strip()]
for n in sorted(set(a) | set(b)):
    if a.get(n) != b.get(n):
        start = max(0, n - 4)
        print("--- ops:")
        for i in range(start, min(len(nonempty), n)):
            print(f"  {i+1}: {nonempty[i]}")
        print("--- impl:"); print("\n".join((a.get(n) or ["<missing>"]))[:1500])
        print("--- model:"); print("\n".join((b.get(n) or ["<missing>"]))[:1500])
        sys.exit(0)
print("no difference")
