#!/usr/bin/env python3
"""mutprompt.py <prop-id> <round-tag>  — prints the prompt for a fresh sub-agent that seeds changes
breaking one property (it gets the property text and its own scratch worktree, nothing from /verif)."""
import json, sys
pid, tag = sys.argv[1], sys.argv[2]
prop = next(json.loads(l) for l in open("/verif/properties.jsonl") if json.loads(l)["id"] == pid)
wt = f"/tmp/{tag}-{pid}"
out = f"/tmp/{tag}-{pid}-out"
print(f"""You are helping to evaluate a verification tool for the Go library mlange-42/ark (an archetype-based Entity Component System). Your job is to play the role of a developer who introduces a realistic, subtle bug.

You work ONLY in your own scratch git worktree of the library at {wt} (already created; it is a checkout of the current code). Do not touch /repo, do not look at or touch /verif, do not use `git stash` (the stash is shared between worktrees): to go back to the clean tree use `git diff > some.diff; git checkout -- .`, and to re-apply `git apply some.diff`. The sandbox is offline; use `export GOFLAGS=-mod=mod GOPROXY=off` in every shell call. The library's tests run with `go test ./...` (in {wt}).

The property the tool claims to verify:

  {prop['id']} — {prop.get('title','')}
  {prop.get('statement', prop.get('description',''))}

Produce TWO different changes (patches) to the library's non-test source under {wt}/ecs, each of which:
  1. breaks this property (for some input / history / schedule),
  2. still compiles and still passes the complete existing test suite (`go test ./...`, unedited),
  3. is realistic: the kind of mistake or "harmless-looking simplification/optimisation" a maintainer could make — a changed condition, an off-by-one, a forgotten update of an index or cache, a stale pointer/slice alias, a wrong order of two statements, a missed case for a rarely used feature; not a blatant sabotage, not a change that breaks every use,
  4. needs something specific to manifest — NOT something ordinary use would expose at once: a particular interleaving of goroutines or of nested calls (operations issued from inside observer/batch callbacks or while a query is open), a panic/recover at a particular point followed by further use of the world, a multi-step sequence of operations (e.g. only after a table was freed and recycled, after Reset, after Shrink, after the 17th table or 65th component, after an ID was recycled), an unusual input (empty lists, duplicate IDs, zero-size types, zero entity, capacities 1 or 2), or two cooperating sites that each look fine alone — say exactly what,
  5. the two changes should differ in kind and touch different mechanisms. Prefer hand-written files; a change to a generated `*_gen.go` file is allowed only for one of the two.

For each change n = 1, 2 write into {out}/ (create it):
  - patch<n>.diff   : `git diff` of the change against the clean tree (must apply with `git apply` in a clean checkout),
  - demo<n>_test.go : a Go test file (package ecs, test function `TestDemo<n>`) that PASSES on the clean tree and FAILS on the patched tree, demonstrating the violation of the property through the public API as far as possible,
  - notes<n>.md     : what was changed, why it breaks the property, what is needed for it to manifest, and confirmation of what you ran.
Verify all of this yourself: the demo passes unpatched and fails patched; the full suite passes patched (without the demo file in the tree). Leave the worktree clean (`git checkout -- .`, no extra files) when you are done. Report the two changes in a few lines each.""")
