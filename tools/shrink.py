#!/usr/bin/env python3
"""Delta-debugging shrinker for op sequences.

usage: shrink.py <harness-binary> <driver-binary> <ops-file> <out-file> [--proj PROP]
Keeps the `world` line; minimises the remaining lines while the implementation trace and the
model trace still differ (after the optional per-property projection) or the harness crashes.
"""
import subprocess, sys, os, tempfile

def run_pair(harness, driver, lines, timeout=20):
    data = ("\n".join(lines) + "\n").encode()
    try:
        pi = subprocess.run([harness, "-mode", "replay"], input=data, capture_output=True, timeout=timeout)
        impl, crashed = pi.stdout.decode(errors="replace"), pi.returncode != 0
    except subprocess.TimeoutExpired:
        impl, crashed = "", True
    pm = subprocess.run([driver], input=data, capture_output=True, timeout=timeout)
    return impl, pm.stdout.decode(errors="replace"), crashed

def malformed(lines, model):
    """A candidate in which some query receives two or more cursor calls after it reported its end
    (or failed) is outside the op language: the generator emits at most one misuse call per query
    (a second `Next` after exhaustion is the documented divergence D16 of the non-debug build), and
    removing lines during shrinking must not manufacture one."""
    import re
    res = {}
    for m in re.finditer(r"^#(\d+) (.*)$", model, re.M):
        res[int(m.group(1))] = m.group(2)
    done, misuse = set(), {}
    for i, l in enumerate(lines):
        t = l.split()
        if len(t) < 2 or t[0] not in ("qnext", "qget", "qgetc", "qat", "qcount", "qclose"):
            continue
        q = t[1]
        if q in done:
            misuse[q] = misuse.get(q, 0) + 1
            if misuse[q] >= 2:
                return True
        r = res.get(i + 1, "")
        if t[0] == "qclose" or (t[0] == "qnext" and (r.startswith("ok 0") or r.startswith("panic"))):
            done.add(q)
    return False

def differs(harness, driver, lines, project=None):
    impl, model, crashed = run_pair(harness, driver, lines)
    if malformed(lines, model):
        return False
    if crashed:
        return True
    if project:
        return project(impl) != project(model)
    return impl != model

def ddmin(lines, test):
    n = 2
    while len(lines) >= 2:
        chunk = max(1, len(lines) // n)
        subsets = [lines[i:i + chunk] for i in range(0, len(lines), chunk)]
        reduced = False
        for i in range(len(subsets)):
            comp = [l for j, s in enumerate(subsets) if j != i for l in s]
            if test(comp):
                lines = comp
                n = max(n - 1, 2)
                reduced = True
                break
        if not reduced:
            if chunk == 1:
                break
            n = min(n * 2, len(lines))
    return lines

def shrink(harness, driver, lines, project=None):
    head = [l for l in lines if l.startswith("world")][:1]
    body = [l for l in lines if l.strip() and not l.startswith("world")]
    test = lambda ls: differs(harness, driver, head + ls, project)
    if not test(body):
        return None
    body = ddmin(body, test)
    return head + body

if __name__ == "__main__":
    harness, driver, src, dst = sys.argv[1:5]
    lines = open(src).read().splitlines()
    out = shrink(harness, driver, lines)
    if out is None:
        print("no difference to shrink")
        sys.exit(1)
    open(dst, "w").write("\n".join(out) + "\n")
    print(f"shrunk {len(lines)} -> {len(out)} lines")
