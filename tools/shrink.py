#!/usr/bin/env python3
"""Delta-debugging shrinker for op sequences.

usage: shrink.py <harness-binary> <driver-binary> <ops-file> <out-file> [--proj PROP]
Keeps the `world` line; minimises the remaining lines while the implementation trace and the
model trace still differ (after the optional per-property projection) or the harness crashes.
"""
import subprocess, sys, os, tempfile

def run_pair(harness, driver, lines, timeout=20):
    data = ("\n".join(lines) + "\n").encode()
    try:
        pi = subprocess.run([harness, "-mode", "replay"], input=data, capture_output=True, timeout=timeout)
        impl, crashed = pi.stdout.decode(errors="replace"), pi.returncode != 0
    except subprocess.TimeoutExpired:
        impl, crashed = "", True
    pm = subprocess.run([driver], input=data, capture_output=True, timeout=timeout)
    return impl, pm.stdout.decode(errors="replace"), crashed

def malformed(lines, model):
    """Was: candidates with two or more cursor calls on a query after its end were rejected, because a
    second `Next` after exhaustion re-iterated in the non-debug build (defect D16). Since the repair every
    access after the end is rejected in every build and the generator issues several, so nothing is
    excluded any more."""
    return False


def differs(harness, driver, lines, project=None):
    impl, model, crashed = run_pair(harness, driver, lines)
    if malformed(lines, model):
        return False
    if crashed:
        return True
    if project:
        return project(impl) != project(model)
    return impl != model

def ddmin(lines, test):
    n = 2
    while len(lines) >= 2:
        chunk = max(1, len(lines) // n)
        subsets = [lines[i:i + chunk] for i in range(0, len(lines), chunk)]
        reduced = False
        for i in range(len(subsets)):
            comp = [l for j, s in enumerate(subsets) if j != i for l in s]
            if test(comp):
                lines = comp
                n = max(n - 1, 2)
                reduced = True
                break
        if not reduced:
            if chunk == 1:
                break
            n = min(n * 2, len(lines))
    return lines

def shrink(harness, driver, lines, project=None):
    head = [l for l in lines if l.startswith("world")][:1]
    body = [l for l in lines if l.strip() and not l.startswith("world")]
    test = lambda ls: differs(harness, driver, head + ls, project)
    if not test(body):
        return None
    body = ddmin(body, test)
    return head + body

if __name__ == "__main__":
    harness, driver, src, dst = sys.argv[1:5]
    lines = open(src).read().splitlines()
    out = shrink(harness, driver, lines)
    if out is None:
        print("no difference to shrink")
        sys.exit(1)
    open(dst, "w").write("\n".join(out) + "\n")
    print(f"shrunk {len(lines)} -> {len(out)} lines")
