module arkextract

go 1.24
