package main

import (
	"fmt"
	"go/ast"
	"go/token"
	"strconv"
	"strings"
)

// ---------------------------------------------------------------------------------------------
// T1 (word level): the bit-mask methods of mask256.go / mask64.go, statement by statement, as
// Lean definitions over 64-bit words. Ark/Proofs/MaskWords.lean relates every generated
// definition to the `Mask` / `Mask64` operations the model and all theorems use.
//
// Supported subset (anything else is reported as a problem, i.e. a broken tie):
//   statements   x := e | x, y, … := e1, e2, … | recv.bits[e] op= e | recv.bits op= e |
//                recv.bits = e | return e
//   expressions  identifiers, integer literals, uintN(e), recv.bits, recv.bits[e],
//                & | ^ &^ << >> == != && ||, unary ^, array/struct literals,
//                bits.OnesCount64(e), + (on ints)
// ---------------------------------------------------------------------------------------------

type wty int

const (
	tU8 wty = iota
	tU64
	tInt
	tBool
	tArr // [n]uint64
	tStruct
	tLit // untyped constant
)

type wexpr struct {
	s  string
	ty wty
}

type wfn struct {
	where    string
	recv     string          // receiver variable
	recvTy   string          // Lean structure name
	arrLen   int             // 0: the mask is a single word
	vars     map[string]wty  // locals and parameters
	others   map[string]bool // parameters of the receiver's type
	lets     []string        // emitted let lines
	inRange  []string        // index conditions (dynamic indices)
	mutated  bool
	hasIndex bool
}

func (f *wfn) bad(n ast.Node, what string) wexpr {
	problem("%s: unsupported %s: %s", f.where, what, src(n))
	return wexpr{"sorry_unsupported", tLit}
}

func litOf(v string, ty wty) string {
	switch ty {
	case tU8:
		return v + "#8"
	case tU64:
		return v + "#64"
	default:
		return v
	}
}

// coerce an untyped literal to the type of its context
func (f *wfn) coerce(e wexpr, ty wty) wexpr {
	if e.ty == tLit && (ty == tU8 || ty == tU64 || ty == tInt) {
		return wexpr{litOf(e.s, ty), ty}
	}
	return e
}

func (f *wfn) isBits(e ast.Expr) (string, bool) {
	sel, ok := e.(*ast.SelectorExpr)
	if !ok || sel.Sel.Name != "bits" {
		return "", false
	}
	id, ok := sel.X.(*ast.Ident)
	if !ok {
		return "", false
	}
	if id.Name == f.recv || f.others[id.Name] {
		return id.Name, true
	}
	return "", false
}

// index expression into the word array: returns the Lean index (BitVec 8) and records the range condition
func (f *wfn) index(e ast.Expr) string {
	if bl, ok := e.(*ast.BasicLit); ok && bl.Kind == token.INT {
		k, _ := strconv.Atoi(bl.Value)
		if k >= f.arrLen {
			problem("%s: constant index %d out of range", f.where, k)
		}
		return fmt.Sprintf("%d#8", k)
	}
	ix := f.expr(e)
	if ix.ty != tU8 {
		problem("%s: index %s is not a uint8 expression", f.where, src(e))
	}
	f.inRange = append(f.inRange, fmt.Sprintf("(%s).toNat < %d", ix.s, f.arrLen))
	f.hasIndex = true
	return ix.s
}

func (f *wfn) expr(e ast.Expr) wexpr {
	switch x := e.(type) {
	case *ast.ParenExpr:
		r := f.expr(x.X)
		return wexpr{"(" + r.s + ")", r.ty}
	case *ast.BasicLit:
		if x.Kind != token.INT {
			return f.bad(e, "literal")
		}
		return wexpr{x.Value, tLit}
	case *ast.Ident:
		if ty, ok := f.vars[x.Name]; ok {
			return wexpr{x.Name, ty}
		}
		return f.bad(e, "identifier")
	case *ast.SelectorExpr:
		if v, ok := f.isBits(x); ok {
			if f.arrLen > 0 {
				return wexpr{v + ".bits", tArr}
			}
			return wexpr{v + ".bits", tU64}
		}
		return f.bad(e, "selector")
	case *ast.IndexExpr:
		if v, ok := f.isBits(x.X); ok && f.arrLen > 0 {
			return wexpr{fmt.Sprintf("(%s.bits.get (%s))", v, f.index(x.Index)), tU64}
		}
		return f.bad(e, "index expression")
	case *ast.UnaryExpr:
		if x.Op == token.XOR {
			r := f.expr(x.X)
			if r.ty == tLit {
				return f.bad(e, "complement of an untyped constant")
			}
			return wexpr{"(~~~" + r.s + ")", r.ty}
		}
		return f.bad(e, "unary operator")
	case *ast.CallExpr:
		fn := src(x.Fun)
		switch fn {
		case "uint64", "uint8":
			ty := tU64
			if fn == "uint8" {
				ty = tU8
			}
			if len(x.Args) != 1 {
				return f.bad(e, "conversion")
			}
			// uint64(1 << bit): the untyped constant takes the conversion's type
			r := f.exprAs(x.Args[0], ty)
			if r.ty != ty {
				return f.bad(e, "conversion between word sizes")
			}
			return r
		case "bits.OnesCount64":
			r := f.expr(x.Args[0])
			if r.ty != tU64 {
				return f.bad(e, "OnesCount64 argument")
			}
			return wexpr{"(Words.popCount " + r.s + ")", tInt}
		}
		return f.bad(e, "call")
	case *ast.BinaryExpr:
		return f.binary(x, tLit)
	case *ast.CompositeLit:
		return f.composite(x)
	}
	return f.bad(e, "expression")
}

// exprAs translates e where an untyped constant operand takes type ty (Go's rule for constant
// shifts and conversions).
func (f *wfn) exprAs(e ast.Expr, ty wty) wexpr {
	switch x := e.(type) {
	case *ast.ParenExpr:
		r := f.exprAs(x.X, ty)
		return wexpr{"(" + r.s + ")", r.ty}
	case *ast.BinaryExpr:
		return f.binary(x, ty)
	case *ast.UnaryExpr:
		if x.Op == token.XOR {
			r := f.exprAs(x.X, ty)
			return wexpr{"(~~~" + r.s + ")", r.ty}
		}
	}
	return f.coerce(f.expr(e), ty)
}

func (f *wfn) binary(x *ast.BinaryExpr, ctx wty) wexpr {
	switch x.Op {
	case token.SHL, token.SHR:
		l := f.exprAs(x.X, ctx)
		if l.ty == tLit {
			return f.bad(x, "shift of an untyped constant without a typed context")
		}
		op := "<<<"
		if x.Op == token.SHR {
			op = ">>>"
		}
		if bl, ok := x.Y.(*ast.BasicLit); ok {
			return wexpr{fmt.Sprintf("(%s %s %s)", l.s, op, bl.Value), l.ty}
		}
		r := f.expr(x.Y)
		if r.ty != tU8 && r.ty != tU64 {
			return f.bad(x, "shift count")
		}
		return wexpr{fmt.Sprintf("(%s %s %s)", l.s, op, r.s), l.ty}
	case token.AND, token.OR, token.XOR, token.AND_NOT:
		l, r := f.exprAs(x.X, ctx), f.exprAs(x.Y, ctx)
		if l.ty == tLit {
			l = f.coerce(l, r.ty)
		}
		r = f.coerce(r, l.ty)
		if l.ty != r.ty || (l.ty != tU8 && l.ty != tU64) {
			return f.bad(x, "bitwise operands")
		}
		switch x.Op {
		case token.AND:
			return wexpr{fmt.Sprintf("(%s &&& %s)", l.s, r.s), l.ty}
		case token.OR:
			return wexpr{fmt.Sprintf("(%s ||| %s)", l.s, r.s), l.ty}
		case token.XOR:
			return wexpr{fmt.Sprintf("(%s ^^^ %s)", l.s, r.s), l.ty}
		default:
			return wexpr{fmt.Sprintf("(%s &&& ~~~%s)", l.s, r.s), l.ty}
		}
	case token.EQL, token.NEQ:
		l, r := f.expr(x.X), f.expr(x.Y)
		if l.ty == tLit {
			l = f.coerce(l, r.ty)
		}
		r = f.coerce(r, l.ty)
		if l.ty != r.ty {
			return f.bad(x, "comparison operands")
		}
		op := "=="
		if x.Op == token.NEQ {
			op = "!="
		}
		return wexpr{fmt.Sprintf("(%s %s %s)", l.s, op, r.s), tBool}
	case token.LAND, token.LOR:
		l, r := f.expr(x.X), f.expr(x.Y)
		if l.ty != tBool || r.ty != tBool {
			return f.bad(x, "boolean operands")
		}
		op := "&&"
		if x.Op == token.LOR {
			op = "||"
		}
		return wexpr{fmt.Sprintf("(%s %s %s)", l.s, op, r.s), tBool}
	case token.ADD:
		l, r := f.expr(x.X), f.expr(x.Y)
		if l.ty != tInt || r.ty != tInt {
			return f.bad(x, "addition operands")
		}
		return wexpr{fmt.Sprintf("(%s + %s)", l.s, r.s), tInt}
	}
	return f.bad(x, "binary operator")
}

func (f *wfn) composite(x *ast.CompositeLit) wexpr {
	switch t := x.Type.(type) {
	case *ast.ArrayType:
		if src(t.Elt) != "uint64" || f.arrLen == 0 || src(t.Len) != strconv.Itoa(f.arrLen) || (len(x.Elts) != f.arrLen && len(x.Elts) != 0) {
			return f.bad(x, "array literal")
		}
		var parts []string
		for _, el := range x.Elts {
			if _, keyed := el.(*ast.KeyValueExpr); keyed {
				return f.bad(x, "keyed array literal")
			}
			parts = append(parts, f.coerce(f.expr(el), tU64).s)
		}
		for len(parts) < f.arrLen { // `[4]uint64{}`: Go's zero value
			parts = append(parts, f.coerce(wexpr{"0", tLit}, tU64).s)
		}
		return wexpr{"(Words.Arr" + strconv.Itoa(f.arrLen) + ".mk " + strings.Join(parts, " ") + ")", tArr}
	case *ast.Ident:
		if t.Name != "bitMask"+f.recvTy[1:] || len(x.Elts) != 1 {
			return f.bad(x, "struct literal")
		}
		kv, ok := x.Elts[0].(*ast.KeyValueExpr)
		if !ok || src(kv.Key) != "bits" {
			return f.bad(x, "struct literal field")
		}
		want := tU64
		if f.arrLen > 0 {
			want = tArr
		}
		v := f.coerce(f.expr(kv.Value), want)
		if v.ty != want {
			return f.bad(x, "struct literal value")
		}
		return wexpr{"({ bits := " + v.s + " } : " + f.recvTy + ")", tStruct}
	}
	return f.bad(x, "composite literal")
}

func (f *wfn) assignOp(tok token.Token, old string, rhs wexpr) string {
	switch tok {
	case token.ASSIGN:
		return rhs.s
	case token.OR_ASSIGN:
		return fmt.Sprintf("(%s ||| %s)", old, rhs.s)
	case token.AND_ASSIGN:
		return fmt.Sprintf("(%s &&& %s)", old, rhs.s)
	case token.AND_NOT_ASSIGN:
		return fmt.Sprintf("(%s &&& ~~~%s)", old, rhs.s)
	case token.XOR_ASSIGN:
		return fmt.Sprintf("(%s ^^^ %s)", old, rhs.s)
	}
	problem("%s: unsupported assignment operator %s", f.where, tok)
	return old
}

// genWordFn translates one method; ret is "" for methods that only mutate the receiver.
func genWordFn(p *pkgFiles, file, goRecv, leanTy string, arrLen int, name string, out *strings.Builder) {
	fd := p.findFunc(file, goRecv, name)
	where := file + ":" + goRecv + "." + name
	if fd == nil || fd.Body == nil {
		problem("%s: not found", where)
		return
	}
	f := &wfn{where: where, recvTy: leanTy, arrLen: arrLen, vars: map[string]wty{}, others: map[string]bool{}}
	if fd.Recv != nil && len(fd.Recv.List) == 1 && len(fd.Recv.List[0].Names) == 1 {
		f.recv = fd.Recv.List[0].Names[0].Name
	}
	var params []string
	for _, fl := range fd.Type.Params.List {
		for _, n := range fl.Names {
			switch src(fl.Type) {
			case "uint8":
				f.vars[n.Name] = tU8
				params = append(params, fmt.Sprintf("(%s : BitVec 8)", n.Name))
			case "*" + goRecv:
				f.others[n.Name] = true
				params = append(params, fmt.Sprintf("(%s : %s)", n.Name, leanTy))
			default:
				problem("%s: unsupported parameter type %s", where, src(fl.Type))
			}
		}
	}
	retTy := ""
	if fd.Type.Results != nil && len(fd.Type.Results.List) == 1 {
		switch src(fd.Type.Results.List[0].Type) {
		case "bool":
			retTy = "Bool"
		case "int":
			retTy = "Nat"
		case goRecv:
			retTy = leanTy
		default:
			problem("%s: unsupported result type", where)
		}
	}
	result := ""
	for i, st := range fd.Body.List {
		if result != "" {
			problem("%s: statement after return", where)
		}
		switch s := st.(type) {
		case *ast.AssignStmt:
			if s.Tok == token.DEFINE {
				if len(s.Lhs) != len(s.Rhs) {
					problem("%s: unsupported multi-value definition", where)
					continue
				}
				var vals []wexpr
				for _, r := range s.Rhs {
					v := f.expr(r)
					if v.ty == tLit {
						v = f.coerce(v, tInt)
					}
					vals = append(vals, v)
				}
				for j, l := range s.Lhs {
					id, ok := l.(*ast.Ident)
					if !ok {
						problem("%s: unsupported definition target", where)
						continue
					}
					f.vars[id.Name] = vals[j].ty
					f.lets = append(f.lets, fmt.Sprintf("let %s := %s", id.Name, vals[j].s))
				}
				continue
			}
			if len(s.Lhs) != 1 || len(s.Rhs) != 1 {
				problem("%s: unsupported assignment", where)
				continue
			}
			// recv.bits[e] op= rhs  |  recv.bits op= rhs
			if ix, ok := s.Lhs[0].(*ast.IndexExpr); ok {
				v, ok := f.isBits(ix.X)
				if !ok || v != f.recv || f.arrLen == 0 {
					problem("%s: unsupported assignment target %s", where, src(s.Lhs[0]))
					continue
				}
				idx := f.index(ix.Index)
				rhs := f.coerce(f.exprAs(s.Rhs[0], tU64), tU64)
				if rhs.ty != tU64 {
					problem("%s: assigned value is not a word: %s", where, src(s.Rhs[0]))
				}
				nv := f.assignOp(s.Tok, fmt.Sprintf("(%s.bits.get (%s))", v, idx), rhs)
				f.lets = append(f.lets, fmt.Sprintf("let %s : %s := { bits := %s.bits.set (%s) %s }", v, leanTy, v, idx, nv))
				f.mutated = true
				continue
			}
			if v, ok := f.isBits(s.Lhs[0]); ok && v == f.recv {
				want := tU64
				if f.arrLen > 0 {
					want = tArr
				}
				rhs := f.coerce(f.exprAs(s.Rhs[0], want), want)
				if rhs.ty != want {
					problem("%s: assigned value has the wrong type: %s", where, src(s.Rhs[0]))
				}
				nv := f.assignOp(s.Tok, v+".bits", rhs)
				f.lets = append(f.lets, fmt.Sprintf("let %s : %s := { bits := %s }", v, leanTy, nv))
				f.mutated = true
				continue
			}
			problem("%s: unsupported assignment target %s", where, src(s.Lhs[0]))
		case *ast.ReturnStmt:
			if len(s.Results) != 1 || i != len(fd.Body.List)-1 {
				problem("%s: unsupported return", where)
				continue
			}
			r := f.expr(s.Results[0])
			result = r.s
		default:
			problem("%s: unsupported statement %s", where, src(st))
		}
	}
	if retTy == "" {
		if !f.mutated {
			problem("%s: method neither returns nor mutates", where)
		}
		retTy = leanTy
		result = f.recv
	} else if f.mutated {
		problem("%s: method both mutates and returns", where)
	}
	recvParam := fmt.Sprintf("(%s : %s)", f.recv, leanTy)
	fmt.Fprintf(out, "/-- `%s.%s` (%s) -/\ndef %s.%s %s %s : %s :=\n", goRecv, name, file, leanTy, name, recvParam, strings.Join(params, " "), retTy)
	for _, l := range f.lets {
		out.WriteString("  " + l + "\n")
	}
	out.WriteString("  " + result + "\n\n")
	if f.hasIndex {
		fmt.Fprintf(out, "/-- every dynamic array index of `%s.%s` is in range (Go would panic otherwise) -/\ndef %s.%s_inRange %s %s : Prop :=\n", goRecv, name, leanTy, name, recvParam, strings.Join(params, " "))
		for _, l := range f.lets {
			if strings.HasPrefix(l, "let "+f.recv+" ") {
				continue // conditions never mention the receiver's new value
			}
			out.WriteString("  " + l + "\n")
		}
		out.WriteString("  " + strings.Join(f.inRange, " ∧ ") + "\n\n")
	}
}

// newMask: `var mask T; for _, id := range ids { mask.Set(id.id) }; return mask`
func checkNewMask(p *pkgFiles, file, name string) {
	fd := p.findFunc(file, "", name)
	where := file + ":" + name
	if fd == nil || fd.Body == nil || len(fd.Body.List) != 3 {
		problem("%s: unexpected shape", where)
		return
	}
	rs, ok := fd.Body.List[1].(*ast.RangeStmt)
	good := false
	if ok && src(rs.X) == "ids" && len(rs.Body.List) == 1 && rs.Tok == token.DEFINE {
		body := src(rs.Body.List[0])
		switch {
		case rs.Value != nil && src(rs.Key) == "_": // for _, id := range ids { mask.Set(id.id) }
			good = body == "mask.Set("+src(rs.Value)+".id)"
		case rs.Value == nil && rs.Key != nil: // for i := range ids { mask.Set(ids[i].id) }
			good = body == "mask.Set(ids["+src(rs.Key)+"].id)"
		}
	}
	if !good {
		problem("%s: loop is not `for _, id := range ids { mask.Set(id.id) }`", where)
	}
	if src(fd.Body.List[2]) != "return mask" {
		problem("%s: does not return the mask", where)
	}
}

func arrayLenOfBits(p *pkgFiles, file, typeName string) (int, bool) {
	f := p.files[file]
	if f == nil {
		return 0, false
	}
	n, found := 0, false
	ast.Inspect(f, func(nd ast.Node) bool {
		ts, ok := nd.(*ast.TypeSpec)
		if !ok || ts.Name.Name != typeName {
			return true
		}
		st, ok := ts.Type.(*ast.StructType)
		if !ok || len(st.Fields.List) != 1 || len(st.Fields.List[0].Names) != 1 || st.Fields.List[0].Names[0].Name != "bits" {
			return true
		}
		switch t := st.Fields.List[0].Type.(type) {
		case *ast.ArrayType:
			if src(t.Elt) == "uint64" {
				if k, err := strconv.Atoi(src(t.Len)); err == nil {
					n, found = k, true
				}
			}
		case *ast.Ident:
			if t.Name == "uint64" {
				n, found = 0, true
			}
		}
		return true
	})
	return n, found
}

var wordMethods = []string{"Get", "Set", "Clear", "Not", "OrI", "IsZero", "Reset", "Contains", "ContainsAny", "TotalBitsSet", "Equals"}

func genWords(p *pkgFiles) string {
	var out strings.Builder
	out.WriteString("/-\n  GENERATED by /verif/tools/extract from /repo/ecs/mask256.go and mask64.go — do not edit.\n  T1 (word level): the bit-mask methods, statement by statement, over 64-bit words.\n  Related to `Ark.Mask` / `Ark.Mask64` in Ark/Proofs/MaskWords.lean.\n-/\nimport Ark.Model.Words\n\nnamespace Ark.Generated\n\n")
	n256, ok := arrayLenOfBits(p, "mask256.go", "bitMask256")
	if !ok || n256 != 4 {
		problem("mask256.go: bitMask256 is not struct{ bits [4]uint64 }")
		n256 = 4
	}
	n64, ok := arrayLenOfBits(p, "mask64.go", "bitMask64")
	if !ok || n64 != 0 {
		problem("mask64.go: bitMask64 is not struct{ bits uint64 }")
		n64 = 0
	}
	out.WriteString("/-- `bitMask256` -/\nstructure M256 where\n  bits : Words.Arr4\n  deriving DecidableEq\n\n")
	out.WriteString("/-- `bitMask64` -/\nstructure M64 where\n  bits : BitVec 64\n  deriving DecidableEq\n\n")
	for _, m := range wordMethods {
		m := m
		fragment(&out, "mask256.go:bitMask256."+m, func(o *strings.Builder) { genWordFn(p, "mask256.go", "bitMask256", "M256", n256, m, o) })
	}
	for _, m := range wordMethods {
		m := m
		fragment(&out, "mask64.go:bitMask64."+m, func(o *strings.Builder) { genWordFn(p, "mask64.go", "bitMask64", "M64", n64, m, o) })
	}
	fragment(&out, "mask256.go:newMask256", func(o *strings.Builder) {
		checkNewMask(p, "mask256.go", "newMask256")
		o.WriteString("/-- `newMask256(ids...)` (shape checked by the extractor: zero value, then `Set` per ID) -/\ndef M256.ofIDs (ids : List (BitVec 8)) : M256 := ids.foldl M256.Set ⟨⟨0, 0, 0, 0⟩⟩\n\n")
	})
	fragment(&out, "mask64.go:newMask64", func(o *strings.Builder) {
		checkNewMask(p, "mask64.go", "newMask64")
		o.WriteString("/-- `newMask64(ids...)` -/\ndef M64.ofIDs (ids : List (BitVec 8)) : M64 := ids.foldl M64.Set ⟨0⟩\n\n")
	})
	out.WriteString("end Ark.Generated\n")
	return out.String()
}
