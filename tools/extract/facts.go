package main

import (
	"fmt"
	"go/ast"
	"sort"
	"strings"
)

// ---------------------------------------------------------------------------------------------
// T2: structural facts
// ---------------------------------------------------------------------------------------------

func leanStr(s string) string {
	s = strings.ReplaceAll(s, "\\", "\\\\")
	s = strings.ReplaceAll(s, "\"", "\\\"")
	return "\"" + s + "\""
}

func leanBool(b bool) string {
	if b {
		return "true"
	}
	return "false"
}

// structural entry points that must check the world lock before anything else
var lockFirstFuncs = [][3]string{
	{"world.go", "World", "NewEntity"}, {"world.go", "World", "NewEntities"}, {"world.go", "World", "CopyEntity"},
	{"world.go", "World", "RemoveEntity"}, {"world.go", "World", "RemoveEntities"}, {"world.go", "World", "Reset"},
	{"world.go", "World", "Shrink"},
	{"world_internal.go", "World", "newEntity"}, {"world_internal.go", "World", "add"}, {"world_internal.go", "World", "remove"},
	{"world_internal.go", "World", "exchange"}, {"world_internal.go", "World", "exchangeBatch"},
	{"world_internal.go", "World", "setRelations"}, {"world_internal.go", "World", "setRelationsBatch"},
	{"unsafe.go", "Unsafe", "LoadEntities"},
}

func firstStmtIsCheckLocked(fd *ast.FuncDecl) bool {
	if fd == nil || fd.Body == nil || len(fd.Body.List) == 0 {
		return false
	}
	s := src(fd.Body.List[0])
	return s == "w.checkLocked()" || s == "u.world.checkLocked()" || s == "m.world.checkLocked()"
}

// callsBefore reports whether, walking the function body in source order, a node satisfying
// `guard` is reached before any node satisfying `use` (or `use` never occurs).
func guardBeforeUse(fd *ast.FuncDecl, guard, use func(n ast.Node) bool) (guarded bool, hasUse bool) {
	done := false
	guardSeen := false
	guarded = true
	ast.Inspect(fd.Body, func(n ast.Node) bool {
		if n == nil || done {
			return false
		}
		if guard(n) {
			guardSeen = true
		}
		if use(n) {
			hasUse = true
			if !guardSeen {
				guarded = false
			}
			done = true
			return false
		}
		return true
	})
	return
}

// entity-taking methods: the alive check (or a delegation to a checked core) must precede the
// first read of the entity index.
var checkedCores = []string{".add(", ".remove(", ".exchange(", ".setRelations(", ".storage.get(", ".storage.has(",
	".storage.getRelation(", ".storage.RemoveEntity(", ".emitEvent(", ".emitEventSlowPath("}

func entityParam(fd *ast.FuncDecl) string {
	for _, f := range fd.Type.Params.List {
		if src(f.Type) == "Entity" {
			for _, n := range f.Names {
				return n.Name
			}
		}
	}
	return ""
}

// helperCallersGuarded: every call `.name(` in the package is preceded, in its function, by an
// Alive check or a checked core on the calling function's entity parameter (there must be at least
// one call, and every calling function must take an entity)
func helperCallersGuarded(p *pkgFiles, name string) bool {
	calls := 0
	ok := true
	for _, f := range p.files {
		for _, d := range f.Decls {
			fd, isFn := d.(*ast.FuncDecl)
			if !isFn || fd.Body == nil {
				continue
			}
			ent := entityParam(fd)
			isCall := func(n ast.Node) bool {
				c, is := n.(*ast.CallExpr)
				if !is {
					return false
				}
				sel, is := c.Fun.(*ast.SelectorExpr)
				return is && sel.Sel.Name == name
			}
			guard := func(n ast.Node) bool {
				c, is := n.(*ast.CallExpr)
				if !is || ent == "" {
					return false
				}
				if strings.Contains(src(c), "Alive("+ent+")") {
					return true
				}
				for _, core := range checkedCores {
					if strings.Contains(src(c.Fun)+"(", core) {
						return true
					}
				}
				return false
			}
			g, has := guardBeforeUse(fd, guard, isCall)
			if has {
				calls++
				if !g {
					ok = false
				}
			}
		}
	}
	return ok && calls > 0
}

func genAliveGuards(p *pkgFiles, out *strings.Builder) {
	type row struct {
		name string
		ok   bool
	}
	var rows []row
	files := []string{"world.go", "world_internal.go", "storage.go", "unsafe.go", "map.go", "maps_gen.go", "exchange_gen.go"}
	for _, file := range files {
		f, ok := p.files[file]
		if !ok {
			problem("%s: file not found", file)
			continue
		}
		for _, d := range f.Decls {
			fd, ok := d.(*ast.FuncDecl)
			if !ok || fd.Body == nil || fd.Recv == nil {
				continue
			}
			ent := entityParam(fd)
			if ent == "" || strings.Contains(fd.Name.Name, "Unchecked") {
				continue
			}
			// unexported helpers that are documented to be called after the check
			if fd.Name.Name == "runCallback" || fd.Name.Name == "createEntity" {
				continue
			}
			idx := "entities[" + ent + ".id]"
			guard := func(n ast.Node) bool {
				c, ok := n.(*ast.CallExpr)
				if !ok {
					return false
				}
				s := src(c)
				if strings.Contains(s, "Alive("+ent+")") {
					return true
				}
				for _, core := range checkedCores {
					if strings.Contains(src(c.Fun)+"(", core) {
						return true
					}
				}
				return false
			}
			use := func(n ast.Node) bool {
				ix, ok := n.(*ast.IndexExpr)
				return ok && strings.HasSuffix(src(ix), idx)
			}
			g, hasUse := guardBeforeUse(fd, guard, use)
			// functions that never read the index themselves and never check: they must delegate
			if !hasUse {
				any := false
				ast.Inspect(fd.Body, func(n ast.Node) bool {
					if n != nil && guard(n) {
						any = true
					}
					return true
				})
				// pure forwards to *Fn variants etc. are fine: they call a sibling method with the entity
				if !any {
					forwards := false
					ast.Inspect(fd.Body, func(n ast.Node) bool {
						if c, ok := n.(*ast.CallExpr); ok {
							for _, a := range c.Args {
								if src(a) == ent {
									forwards = true
								}
							}
						}
						return true
					})
					g = forwards
				}
			}
			// an UNEXPORTED helper that reads the index without a check of its own is fine when every
			// call of it, anywhere in the package, comes after an `Alive` check (or a checked core) of the
			// entity passed to it, or from a function that never takes an entity from the caller (extracted
			// tails of checked operations: a refactoring, not a new entry point)
			if !g && !ast.IsExported(fd.Name.Name) {
				g = helperCallersGuarded(p, fd.Name.Name)
			}
			rows = append(rows, row{file + ":" + recvName(fd.Recv.List[0].Type) + "." + fd.Name.Name, g})
		}
	}
	sort.Slice(rows, func(i, j int) bool { return rows[i].name < rows[j].name })
	out.WriteString("/-- every method taking an `Entity` (outside the documented `…Unchecked` ones): does an\n    `Alive` check, or a delegation to a checked core operation, precede the first read of the\n    entity index? -/\ndef aliveGuards : List (String × Bool) := [\n")
	for i, r := range rows {
		sep := ","
		if i == len(rows)-1 {
			sep = ""
		}
		fmt.Fprintf(out, "  (%s, %s)%s\n", leanStr(r.name), leanBool(r.ok), sep)
	}
	out.WriteString("]\n\n")
}

func genLockFirst(p *pkgFiles, out *strings.Builder) {
	out.WriteString("/-- structural entry points: is `checkLocked()` the first statement? -/\ndef lockFirst : List (String × Bool) := [\n")
	for i, f := range lockFirstFuncs {
		fd := p.findFunc(f[0], f[1], f[2])
		ok := firstStmtIsCheckLocked(fd)
		if fd == nil {
			problem("%s: %s.%s not found", f[0], f[1], f[2])
		}
		sep := ","
		if i == len(lockFirstFuncs)-1 {
			sep = ""
		}
		fmt.Fprintf(out, "  (%s, %s)%s\n", leanStr(f[1]+"."+f[2]), leanBool(ok), sep)
	}
	out.WriteString("]\n\n")
	// batch wrappers in generated code that lock before newEntities: `m.world.checkLocked()` first
	var names []string
	var oks []bool
	for _, file := range []string{"map.go", "maps_gen.go"} {
		f := p.files[file]
		if f == nil {
			continue
		}
		for _, d := range f.Decls {
			fd, ok := d.(*ast.FuncDecl)
			if !ok || fd.Body == nil || fd.Recv == nil || fd.Name.Name != "NewBatchFn" {
				continue
			}
			names = append(names, recvName(fd.Recv.List[0].Type)+".NewBatchFn")
			oks = append(oks, firstStmtIsCheckLocked(fd))
		}
	}
	out.WriteString("/-- `NewBatchFn` of every mapper arity: is `checkLocked()` the first statement? -/\ndef newBatchLockFirst : List (String × Bool) := [\n")
	for i := range names {
		sep := ","
		if i == len(names)-1 {
			sep = ""
		}
		fmt.Fprintf(out, "  (%s, %s)%s\n", leanStr(names[i]), leanBool(oks[i]), sep)
	}
	out.WriteString("]\n\n")
}

// map-typed fields of the package's structs (including slices of maps)
func mapFields(p *pkgFiles) (maps map[string]bool, sliceOfMaps map[string]bool) {
	maps, sliceOfMaps = map[string]bool{}, map[string]bool{}
	for _, f := range p.files {
		ast.Inspect(f, func(n ast.Node) bool {
			st, ok := n.(*ast.StructType)
			if !ok {
				return true
			}
			for _, fld := range st.Fields.List {
				switch t := fld.Type.(type) {
				case *ast.MapType:
					for _, nm := range fld.Names {
						maps[nm.Name] = true
					}
				case *ast.ArrayType:
					if _, ok := t.Elt.(*ast.MapType); ok {
						for _, nm := range fld.Names {
							sliceOfMaps[nm.Name] = true
						}
					}
				}
			}
			return true
		})
	}
	return
}

func genMapRanges(p *pkgFiles, out *strings.Builder) {
	maps, slices := mapFields(p)
	type row struct{ fn, expr string }
	var rows []row
	var names []string
	for n := range p.files {
		names = append(names, n)
	}
	sort.Strings(names)
	for _, fname := range names {
		f := p.files[fname]
		for _, d := range f.Decls {
			fd, ok := d.(*ast.FuncDecl)
			if !ok || fd.Body == nil {
				continue
			}
			fn := fd.Name.Name
			if fd.Recv != nil {
				fn = recvName(fd.Recv.List[0].Type) + "." + fn
			}
			mapVars := map[string]bool{} // locals known to hold maps
			ast.Inspect(fd.Body, func(n ast.Node) bool {
				switch st := n.(type) {
				case *ast.AssignStmt:
					// x := make(map…) / map literal / selector of a map field
					for i, rhs := range st.Rhs {
						if i >= len(st.Lhs) {
							break
						}
						isMap := false
						switch r := rhs.(type) {
						case *ast.CompositeLit:
							_, isMap = r.Type.(*ast.MapType)
						case *ast.CallExpr:
							if src(r.Fun) == "make" && len(r.Args) > 0 {
								_, isMap = r.Args[0].(*ast.MapType)
							}
						case *ast.SelectorExpr:
							isMap = maps[r.Sel.Name]
						}
						if id, ok := st.Lhs[i].(*ast.Ident); ok && isMap {
							mapVars[id.Name] = true
						}
					}
				case *ast.RangeStmt:
					isMap := false
					switch x := st.X.(type) {
					case *ast.SelectorExpr:
						isMap = maps[x.Sel.Name]
						if slices[x.Sel.Name] {
							if v, ok := st.Value.(*ast.Ident); ok {
								mapVars[v.Name] = true
							}
						}
					case *ast.Ident:
						isMap = mapVars[x.Name]
					case *ast.IndexExpr:
						if s, ok := x.X.(*ast.SelectorExpr); ok {
							isMap = slices[s.Sel.Name]
						}
					}
					if isMap {
						rows = append(rows, row{fn, src(st.X)})
					}
				}
				return true
			})
		}
	}
	out.WriteString("/-- every `range` over a map-typed expression in non-test code of package ecs -/\ndef mapRanges : List (String × String) := [\n")
	for i, r := range rows {
		sep := ","
		if i == len(rows)-1 {
			sep = ""
		}
		fmt.Fprintf(out, "  (%s, %s)%s\n", leanStr(r.fn), leanStr(r.expr), sep)
	}
	out.WriteString("]\n\n")
}

func genFacts(p *pkgFiles, repo string, files map[string]string, templates bool) {
	one := func(name, what, frag string, gen func(out *strings.Builder)) {
		var out strings.Builder
		out.WriteString("/-\n  GENERATED by /verif/tools/extract from /repo/ecs — do not edit.\n  T2: " + what + " — plain data; closed statements about it are decided in Ark/Props.\n-/\n\nnamespace Ark.Generated\n\n")
		fragment(&out, frag, gen)
		out.WriteString("end Ark.Generated\n")
		files[name] = out.String()
	}
	one("FactsLock", "structural entry points check the lock first", "facts:lockFirst", func(o *strings.Builder) { genLockFirst(p, o) })
	one("FactsAlive", "entity-taking methods check Alive before reading the index", "facts:aliveGuards", func(o *strings.Builder) { genAliveGuards(p, o) })
	one("FactsMapRanges", "iterations over Go maps", "facts:mapRanges", func(o *strings.Builder) { genMapRanges(p, o) })
	one("FactsWiring", "typed wrappers pass their type parameters in order", "facts:arityWiring", func(o *strings.Builder) { genWiring(p, o) })
	if templates {
		one("FactsTemplates", "generated files equal the generator's output", "facts:templateMatches", func(o *strings.Builder) { genTemplateEquality(repo, o) })
	}
	one("FactsMutex", "mutex-protected regions", "facts:mutexRegions", func(o *strings.Builder) { genMutexRegions(p, o); genQueryLockCalls(p, o) })
	one("FactsEvents", "order of events and mutations", "facts:eventOrder", func(o *strings.Builder) { genEventOrder(p, o) })
}
