// Command extract regenerates Lean definitions (T1) and fact tables (T2) from the Go source of
// mlange-42/ark. It is deliberately small: a translator for the boolean/integer expression
// subset used by ark's decision logic, a handful of shape expectations, and fact collectors.
//
// usage: extract -repo /repo -out <dir>
// Exit status 1 (with a message naming the fragment) when a fragment no longer has the
// expected shape: the tie between source and model is then broken for the properties using it.
package main

import (
	"flag"
	"fmt"
	"go/ast"
	"go/parser"
	"go/token"
	"os"
	"path/filepath"
	"sort"
	"strings"
)

var fset = token.NewFileSet()
var problems []string
var curFragment string

// problem records that the current fragment could not be translated (or a fact could not be
// collected). The fragment's definition is then omitted from the generated file, so exactly the
// Lean modules that depend on it stop building.
func problem(format string, args ...any) {
	problems = append(problems, curFragment+": "+fmt.Sprintf(format, args...))
}

// fragment runs one generator; its output is kept only when it reported no problem.
func fragment(out *strings.Builder, name string, gen func(out *strings.Builder)) {
	before := len(problems)
	curFragment = name
	var b strings.Builder
	gen(&b)
	curFragment = ""
	if len(problems) > before {
		fmt.Fprintf(out, "-- fragment `%s` is NOT TRANSLATABLE from the current source (definition omitted):\n", name)
		for _, p := range problems[before:] {
			fmt.Fprintf(out, "--   %s\n", strings.ReplaceAll(p, "\n", " "))
		}
		out.WriteString("\n")
		return
	}
	out.WriteString(b.String())
}

type pkgFiles struct {
	files map[string]*ast.File // by base name
	src   map[string][]byte
}

func load(dir string, skip func(name string) bool) *pkgFiles {
	p := &pkgFiles{files: map[string]*ast.File{}, src: map[string][]byte{}}
	ents, err := os.ReadDir(dir)
	if err != nil {
		fmt.Fprintln(os.Stderr, err)
		os.Exit(2)
	}
	for _, e := range ents {
		n := e.Name()
		if e.IsDir() || !strings.HasSuffix(n, ".go") || strings.HasSuffix(n, "_test.go") || skip(n) {
			continue
		}
		path := filepath.Join(dir, n)
		b, _ := os.ReadFile(path)
		f, err := parser.ParseFile(fset, path, b, parser.ParseComments)
		if err != nil {
			fmt.Fprintln(os.Stderr, "parse error:", err)
			os.Exit(2)
		}
		p.files[n] = f
		p.src[n] = b
	}
	return p
}

// findFunc returns the declaration of func (recv) name in file.
func (p *pkgFiles) findFunc(file, recv, name string) *ast.FuncDecl {
	f, ok := p.files[file]
	if !ok {
		return nil
	}
	for _, d := range f.Decls {
		fd, ok := d.(*ast.FuncDecl)
		if !ok || fd.Name.Name != name {
			continue
		}
		if recv == "" && fd.Recv == nil {
			return fd
		}
		if fd.Recv != nil && len(fd.Recv.List) == 1 && recvName(fd.Recv.List[0].Type) == recv {
			return fd
		}
	}
	return nil
}

func recvName(e ast.Expr) string {
	switch t := e.(type) {
	case *ast.StarExpr:
		return recvName(t.X)
	case *ast.Ident:
		return t.Name
	case *ast.IndexExpr:
		return recvName(t.X)
	case *ast.IndexListExpr:
		return recvName(t.X)
	}
	return ""
}

func main() {
	repo := flag.String("repo", "/repo", "repository root")
	out := flag.String("out", "", "output directory for generated Lean files")
	templates := flag.Bool("templates", true, "re-run ecs/internal/generate and compare (FactsTemplates.lean)")
	flag.Parse()
	if *out == "" {
		fmt.Fprintln(os.Stderr, "need -out")
		os.Exit(2)
	}
	ecs := load(filepath.Join(*repo, "ecs"), func(n string) bool { return false })

	files := map[string]string{}
	genLogic(ecs, files)
	genFacts(ecs, *repo, files, *templates)
	files["Words"] = genWords(ecs)
	genBook(ecs, load(filepath.Join(*repo, "ecs", "stats"), func(n string) bool { return false }), files)

	for name, content := range files {
		must(os.WriteFile(filepath.Join(*out, name+".lean"), []byte(content), 0o644))
	}
	sort.Strings(problems)
	must(os.WriteFile(filepath.Join(*out, "problems.txt"), []byte(strings.Join(problems, "\n")), 0o644))
	for _, p := range problems {
		fmt.Fprintln(os.Stderr, "extract: "+p)
	}
	if len(problems) > 0 {
		fmt.Printf("extract: %d fragment problem(s); the affected definitions are omitted\n", len(problems))
	} else {
		fmt.Println("extract: ok")
	}
}

func must(err error) {
	if err != nil {
		fmt.Fprintln(os.Stderr, err)
		os.Exit(2)
	}
}
