package main

import (
	"fmt"
	"go/ast"
	"go/token"
	"sort"
	"strconv"
	"strings"
)

// ---------------------------------------------------------------------------------------------
// T1 (bookkeeping level): a translator for the Go subset in which ark's index and pool
// bookkeeping is written — methods on structs of ints, bools, slices, maps and pointers to such
// structs — into pure Lean functions over structures GENERATED from the Go struct declarations.
// Ark/Proofs/GenBridge/Book*.lean prove each generated function equal to the model's operation.
//
// Semantics implemented (anything else is reported as a problem, i.e. a broken tie):
//   * a method `func (r *T) M(p…) R` becomes a function from the receiver (and pointer parameters)
//     to the tuple (mutated receiver, mutated pointer parameters…, result); a `panic(…)` makes the
//     result an `Option` (`none` = panic);
//   * all integer types are `Nat` (no wrap-around: the theorems that use the generated
//     definitions carry explicit bounds; `x - y` is truncated subtraction and every subtraction
//     is listed in the generated `…_noUnderflow` comment), `[]T` is `List T'`, `map[K]V` is an
//     association list `AL V'`, `*T` is `T'` with write-back through the path the pointer was
//     taken from (a local bound to `&x.f[i]`, to a map value of pointer type or to a map/slice
//     element of reference type is an ALIAS of that path);
//   * statements: definitions and assignments (also tuple assignments, Go evaluation order:
//     index operands and right-hand sides first), `x++`/`x--`, `delete`, `append`, slicing,
//     `if`/`else` with optional `v, ok := m[k]` header, `for … range` over integers, slices and
//     maps (a map loop may only update the visited values: it becomes `AL.mapVals`, which is
//     order-independent by construction), the counting loop `for i := a; i < len(x); i++`,
//     `continue`, `return`, calls of other translated methods;
//   * `return` and `panic` INSIDE a `for`/`range` loop (also a nested one) and a call of a method that
//     may panic inside a loop: the fold state carries `ret_n : Option <result type of the function>`
//     (done the way `break` is done: once it is `some`, the remaining iterations keep the state); after
//     the loop `match ret_n with | some r => r | none => <rest of the function>`;
//   * a group of functions may be translated with panic MESSAGES (`panicMsgs`): the result is then
//     `GoRes R` (`.ok r` / `.panic ⟨message or fmt.Sprintf format string, integer arguments⟩`)
//     instead of `Option R`;
//   * pointers that may be nil (configured slice-of-pointer fields, `bookNilableElems`, and pointer
//     results of functions that `return nil`) are `Option T'`: `p == nil` is `p.isNone`, a field access
//     `p.f` is `match p with | none => <Go's nil-dereference panic> | some p_n => … p_n.f …`, hoisted
//     in front of the statement that evaluates it (not allowed under `&&`/`||`); a returned non-nil
//     pointer is rendered as `some` of the VALUE it points to (the identity of the pointee is not part
//     of the result: no write-back through a returned pointer);
//   * `uint8(len(x))` / `uint16(len(x))` wrap: `len % 256` / `len % 65536` (all other integer
//     conversions are the identity, see above);
//   * a group may have its OWN rendering of some Go structs (`own`): functions of that group see the
//     struct with the fields THEY use (the structures of the earlier generated files do not change
//     when a later group reads more fields);
//   * slices are values: aliasing between two slices sharing a backing array is NOT modelled.
// ---------------------------------------------------------------------------------------------

type gty struct {
	kind    string // int bool slice map ptr named unit unknown
	elem    *gty
	key     *gty
	name    string
	nilable bool // kind ptr: the pointer may be nil (rendered as `Option`)
}

func (t *gty) isNilable() bool { return t != nil && t.kind == "ptr" && t.nilable }

// slice-of-pointer fields some of whose elements are nil (`struct.field`)
var bookNilableElems = map[string]bool{
	"table.components": true, // `components []*column`: nil for the components the table has no column for
}

var (
	tyInt  = &gty{kind: "int"}
	tyBool = &gty{kind: "bool"}
	tyUnk  = &gty{kind: "unknown"}
)

func (t *gty) deref() *gty {
	if t != nil && t.kind == "ptr" {
		return t.elem
	}
	return t
}

func (t *gty) isRef() bool { return t != nil && (t.kind == "ptr" || t.kind == "map") }

type gfield struct {
	name string
	ty   *gty
}

type gstruct struct {
	name   string
	fields []gfield
	used   map[string]bool
}

// Lean names of Go structs that are mapped onto existing model structures with identical field names.
var bookExternal = map[string]string{
	"tableIDs":  "TableIDs",
	"Entity":    "Ent",
	"bitPool":   "BitPool",
	"intPool":   "IntPool",
	"bitMask64": "M64",  // Generated/Words.lean (word-level translation of mask64.go)
	"bitMask":   "M256", // the default build's `bitMask` = bitMask256 (mask256.go), Generated/Words.lean
}

// package-level integer functions rendered as the model's function of the same meaning (the tie of their
// bodies is another translator's or the correspondence check's business): `capPow2` is bit arithmetic on
// uint32, the model's `capPow2` the least power of two ≥ its argument
var bookExtFuncs = map[string]string{
	"capPow2": "capPow2",
}

// methods whose body is outside the subset (reflect, unsafe) but whose effect on the bookkeeping fields is
// one assignment: `t.adjustCapacity(c)` re-allocates the columns and sets `t.cap = c` (the row contents
// are the model's `Table.adjustCapacity`, compared by the correspondence check)
var bookFieldSetters = map[bookFnKey]string{
	{"table", "adjustCapacity"}: "cap",
}

// zero values of external types without Lean defaults
var bookExtZero = map[string]string{
	"bitMask64": "(⟨0#64⟩ : M64)",
	"bitMask":   "(⟨⟨0#64, 0#64, 0#64, 0#64⟩⟩ : M256)",
}

// methods of external types that another translator owns (word level, Generated/Words.lean):
// a call is rendered as an application of that translation; bit arguments are bytes there
type extMethod struct {
	lean    string
	mut     bool
	ret     *gty
	bitArgs bool
}

var bookExtMethods = map[bookFnKey]extMethod{
	{"bitMask64", "Set"}:       {"M64.Set", true, nil, true},
	{"bitMask64", "Clear"}:     {"M64.Clear", true, nil, true},
	{"bitMask64", "Get"}:       {"M64.Get", false, tyBool, true},
	{"bitMask64", "IsZero"}:    {"M64.IsZero", false, tyBool, false},
	{"bitMask64", "Reset"}:     {"M64.Reset", true, nil, false},
	{"bitMask", "OrI"}:         {"M256.OrI", true, nil, false},
	{"bitMask", "Reset"}:       {"M256.Reset", true, nil, false},
	{"bitMask", "IsZero"}:      {"M256.IsZero", false, tyBool, false},
	{"bitMask", "Contains"}:    {"M256.Contains", false, tyBool, false},
	{"bitMask", "ContainsAny"}: {"M256.ContainsAny", false, tyBool, false},
}

func (c *bctx) extApp(em extMethod, recv string, args []ast.Expr) string {
	parts := []string{"(" + recv + ")"}
	for _, a := range args {
		s, _ := c.expr(a)
		if em.bitArgs {
			s = "BitVec.ofNat 8 (" + s + ")"
		}
		parts = append(parts, "("+s+")")
	}
	return "(" + em.lean + " " + strings.Join(parts, " ") + ")"
}

type bookFnKey struct{ recv, name string }

type bookFnInfo struct {
	exc       bool   // panics carry their message (`GoRes`), not `Option`
	retParts  []*gty // the types of the results, one by one
	inline    string // non-empty: the function is inlined at call sites
	leanName  string
	recvTy    string
	params    []gfield
	ptrParams []string // pointer parameters that are mutated (returned after the receiver)
	mutRecv   bool
	ret       *gty // nil: no result
	mayPanic  bool
	text      string
	ok        bool
	order     int
}

type fnCacheKey struct {
	bookFnKey
	variant string // "" or the group whose own structs the function's signature mentions
}

type book struct {
	p          *pkgFiles
	cur        *bookGroup          // the group being translated / emitted
	ownStructs map[string]*gstruct // group file + ":" + Go struct name -> the group's own copy
	structs    map[string]*gstruct
	intTypes   map[string]bool
	consts     map[string]string
	fns        map[fnCacheKey]*bookFnInfo
	iotaBase   map[*ast.GenDecl]int
	files      map[bookFnKey]string
	stack      map[bookFnKey]bool
	counter    int
}

func newBook(p *pkgFiles) *book {
	b := &book{p: p, structs: map[string]*gstruct{}, ownStructs: map[string]*gstruct{}, intTypes: map[string]bool{}, consts: map[string]string{},
		fns: map[fnCacheKey]*bookFnInfo{}, files: map[bookFnKey]string{}, stack: map[bookFnKey]bool{}, iotaBase: map[*ast.GenDecl]int{}}
	basic := map[string]bool{"int": true, "int8": true, "int16": true, "int32": true, "int64": true, "uint": true,
		"uint8": true, "uint16": true, "uint32": true, "uint64": true, "uintptr": true}
	for k := range basic {
		b.intTypes[k] = true
	}
	// named integer types and constants
	for pass := 0; pass < 3; pass++ {
		for _, f := range p.files {
			for _, d := range f.Decls {
				gd, ok := d.(*ast.GenDecl)
				if !ok {
					continue
				}
				for _, s := range gd.Specs {
					switch sp := s.(type) {
					case *ast.TypeSpec:
						if id, ok := sp.Type.(*ast.Ident); ok && b.intTypes[id.Name] {
							b.intTypes[sp.Name.Name] = true
						}
					case *ast.ValueSpec:
						// `X T = iota + N` and the names that follow it in a parenthesised block
						if gd.Tok == token.CONST && gd.Lparen.IsValid() && len(sp.Names) == 1 {
							idx := 0
							for j, s2 := range gd.Specs {
								if s2 == s {
									idx = j
								}
							}
							if len(sp.Values) == 1 {
								if base, ok := iotaBase(sp.Values[0]); ok {
									b.iotaBase[gd] = base // value = base + index of the spec (= iota)
									b.consts[sp.Names[0].Name] = fmt.Sprint(base + idx)
								} else {
									delete(b.iotaBase, gd)
								}
							} else if len(sp.Values) == 0 {
								if base, ok := b.iotaBase[gd]; ok {
									b.consts[sp.Names[0].Name] = fmt.Sprint(base + idx)
								}
							}
						}
						if gd.Tok == token.CONST && len(sp.Names) == 1 && len(sp.Values) == 1 {
							if bl, ok := sp.Values[0].(*ast.BasicLit); ok && bl.Kind == token.INT {
								b.consts[sp.Names[0].Name] = bl.Value
							}
							if src(sp.Values[0]) == "math.MaxUint32" {
								b.consts[sp.Names[0].Name] = "maxU32"
							}
						}
					}
				}
			}
		}
	}
	// structs
	for _, f := range p.files {
		for _, d := range f.Decls {
			gd, ok := d.(*ast.GenDecl)
			if !ok || gd.Tok != token.TYPE {
				continue
			}
			for _, s := range gd.Specs {
				sp := s.(*ast.TypeSpec)
				st, ok := sp.Type.(*ast.StructType)
				if !ok {
					continue
				}
				gs := &gstruct{name: sp.Name.Name, used: map[string]bool{}}
				tparams := map[string]bool{}
				if sp.TypeParams != nil {
					for _, tp := range sp.TypeParams.List {
						for _, n := range tp.Names {
							tparams[n.Name] = true
						}
					}
				}
				for _, fl := range st.Fields.List {
					ty := b.goType(fl.Type, tparams)
					if len(fl.Names) == 0 { // embedded
						gs.fields = append(gs.fields, gfield{"*embedded*", ty})
						continue
					}
					for _, n := range fl.Names {
						fty := ty
						if bookNilableElems[gs.name+"."+n.Name] && ty.kind == "slice" && ty.elem.kind == "ptr" {
							fty = &gty{kind: "slice", elem: &gty{kind: "ptr", elem: ty.elem.elem, nilable: true}}
						}
						gs.fields = append(gs.fields, gfield{n.Name, fty})
					}
				}
				b.structs[gs.name] = gs
			}
		}
	}
	return b
}

// gstructOf: the struct as the current group sees it (its own copy, with its own set of used fields, for
// the structs the group renders itself)
func (b *book) gstructOf(name string) (*gstruct, bool) {
	base, ok := b.structs[name]
	if !ok {
		return nil, false
	}
	if b.cur != nil {
		if _, own := b.cur.own[name]; own {
			key := b.cur.file + ":" + name
			if gs, ok := b.ownStructs[key]; ok {
				return gs, true
			}
			gs := &gstruct{name: name, fields: base.fields, used: map[string]bool{}}
			for _, f := range b.cur.ownFields[name] {
				gs.used[f] = true
			}
			b.ownStructs[key] = gs
			return gs, true
		}
	}
	return base, true
}

// iotaBase: N of `iota + N` / `N + iota`
func iotaBase(e ast.Expr) (int, bool) {
	switch x := e.(type) {
	case *ast.Ident:
		if x.Name == "iota" {
			return 0, true
		}
	case *ast.BinaryExpr:
		if x.Op != token.ADD {
			return 0, false
		}
		lit, id := x.Y, x.X
		if _, ok := lit.(*ast.BasicLit); !ok {
			lit, id = x.X, x.Y
		}
		bl, ok1 := lit.(*ast.BasicLit)
		in, ok2 := id.(*ast.Ident)
		if ok1 && ok2 && in.Name == "iota" && bl.Kind == token.INT {
			n, err := strconv.Atoi(bl.Value)
			if err == nil {
				return n, true
			}
		}
	}
	return 0, false
}

// addPackageStructs registers the struct types of another package (e.g. ecs/stats) under qualified
// names ("stats.Archetype"); unqualified struct names inside their fields are qualified too
func (b *book) addPackageStructs(pkg string, p *pkgFiles) {
	local := map[string]bool{}
	var specs []*ast.TypeSpec
	for _, f := range p.files {
		for _, d := range f.Decls {
			gd, ok := d.(*ast.GenDecl)
			if !ok || gd.Tok != token.TYPE {
				continue
			}
			for _, s := range gd.Specs {
				sp := s.(*ast.TypeSpec)
				if _, ok := sp.Type.(*ast.StructType); ok {
					local[sp.Name.Name] = true
					specs = append(specs, sp)
				}
			}
		}
	}
	var qualify func(t *gty)
	qualify = func(t *gty) {
		if t == nil {
			return
		}
		if t.kind == "named" && local[t.name] {
			t.name = pkg + "." + t.name
		}
		qualify(t.elem)
		qualify(t.key)
	}
	for _, sp := range specs {
		st := sp.Type.(*ast.StructType)
		gs := &gstruct{name: pkg + "." + sp.Name.Name, used: map[string]bool{}}
		for _, fl := range st.Fields.List {
			ty := b.goType(fl.Type, nil)
			qualify(ty)
			for _, n := range fl.Names {
				gs.fields = append(gs.fields, gfield{n.Name, ty})
			}
		}
		b.structs[gs.name] = gs
	}
}

func (b *book) goType(e ast.Expr, tparams map[string]bool) *gty {
	switch t := e.(type) {
	case *ast.Ident:
		if t.Name == "bool" {
			return tyBool
		}
		if b.intTypes[t.Name] || tparams[t.Name] {
			return tyInt
		}
		return &gty{kind: "named", name: t.Name}
	case *ast.StarExpr:
		return &gty{kind: "ptr", elem: b.goType(t.X, tparams)}
	case *ast.ArrayType:
		return &gty{kind: "slice", elem: b.goType(t.Elt, tparams)}
	case *ast.MapType:
		return &gty{kind: "map", key: b.goType(t.Key, tparams), elem: b.goType(t.Value, tparams)}
	case *ast.Ellipsis:
		return &gty{kind: "slice", elem: b.goType(t.Elt, tparams)}
	case *ast.IndexExpr: // generic instantiation
		return b.goType(t.X, tparams)
	case *ast.SelectorExpr:
		return &gty{kind: "named", name: src(t)}
	}
	return tyUnk
}

// field lookup with promotion through embedded structs
func (b *book) field(structName, f string) (*gty, string, bool) {
	gs, ok := b.gstructOf(structName)
	if !ok {
		return nil, "", false
	}
	for _, fl := range gs.fields {
		if fl.name == f {
			gs.used[f] = true
			return fl.ty, structName, true
		}
	}
	for _, fl := range gs.fields {
		if fl.name == "*embedded*" {
			inner := fl.ty.deref()
			if inner.kind == "named" {
				if ty, _, ok := b.field(inner.name, f); ok {
					// promoted: recorded as a field of the outer structure
					gs.used["^"+f] = true
					return ty, structName, true
				}
			}
		}
	}
	return nil, "", false
}

func (b *book) leanStruct(name string) string {
	if b.cur != nil {
		if ln, ok := b.cur.own[name]; ok {
			return ln
		}
	}
	if ext, ok := bookExternal[name]; ok {
		return ext
	}
	return "G_" + strings.ReplaceAll(name, ".", "_")
}

func (b *book) leanType(t *gty) string {
	switch t.kind {
	case "int":
		return "Nat"
	case "bool":
		return "Bool"
	case "slice":
		return "(List " + b.leanType(t.elem) + ")"
	case "map":
		return "(AL " + b.leanType(t.elem) + ")"
	case "ptr":
		if t.nilable {
			return "(Option " + b.leanType(t.elem) + ")"
		}
		return b.leanType(t.elem)
	case "named":
		return b.leanStruct(t.name)
	}
	return "Unit"
}

// fieldDefault: Go's zero value as the Lean default of a generated structure's field (where one is known)
func (b *book) fieldDefault(t *gty) string {
	switch t.kind {
	case "int":
		return " := 0"
	case "bool":
		return " := false"
	case "slice", "map":
		return " := []"
	case "named":
		if z, ok := bookExtZero[t.name]; ok {
			return " := " + z
		}
	}
	return ""
}

func (b *book) dflt(t *gty) string {
	switch t.kind {
	case "int":
		return "0"
	case "bool":
		return "false"
	case "slice", "map":
		return "[]"
	case "ptr":
		if t.nilable {
			return "none"
		}
		return b.dflt(t.elem)
	case "named":
		if z, ok := bookExtZero[t.name]; ok {
			return z
		}
	}
	return "default"
}

// ---------------------------------------------------------------------------------------------
// per-function translation
// ---------------------------------------------------------------------------------------------

type bvar struct {
	// `x := a - b` (Go ints may go negative, the translation's naturals truncate): the operands and the number
	// of assignments made when x was defined, so that `x < 0` / `x >= 0` can be decided as `a < b` / `b ≤ a`
	// as long as nothing was assigned in between
	subA, subB ast.Expr
	subSeq     int
	slice      bool // a local slice taken from another slice or field: shares its backing array in Go
	ty         *gty
	alias      ast.Expr // Go lvalue this local is an alias of (reference semantics)
	bound      bool     // for aliases: a Lean binding with the current value exists
	root       bool     // receiver or pointer parameter (mutations are returned)
	// a local slice `x := base[lo:]` over a field path: element writes through x go to base[lo+i], and
	// the Lean value of x is re-read from base after every write to base's elements
	view   ast.Expr
	viewLo string // Lean name holding the frozen `lo` ("" = 0)
	dead   bool   // base was re-assigned as a whole (or its root changed by a call): x may not be used any more
}

type bctx struct {
	seq      int // number of assignments/definitions emitted so far (see bvar.subSeq)
	b        *book
	where    string
	vars     map[string]*bvar
	mutated  map[string]bool // roots assigned
	assigned map[string]bool // every Lean variable (re)bound by an assignment (for loop/if state)
	under    []string        // subtractions (for the noUnderflow comment)
	retTy    *gty
	mayPanic bool
	info     *bookFnInfo
	recv     string
	tmp      int
	noBind   int     // >0 inside a branch that joins or a loop body: a panicking call cannot be bound there
	exc      bool    // panics carry their message (the group's `panicMsgs`)
	curK     *bcont  // the continuation of the statement being translated
	hoists   []hoist // nil checks of the pointers the current statement dereferences
	sawExit  bool    // (scratch translation of a loop body) a `return`/panic was seen
}

// a dereference `p.f` of a pointer that may be nil: `match ptr with | none => panic | some name => …`
type hoist struct{ ptr, name string }

type bcont struct {
	fall   string                     // text yielded when control falls off the end of the block
	ret    func(vals []string) string // `return`
	cont   string                     // `continue` ("" outside loops)
	brk    string                     // `break`: the loop state once the break flag is set ("" where unsupported)
	brkVar string
	// `panic`: the text yielded for a panic with the given value (a `GoPanic` term; ignored by the
	// `Option` convention)
	pan func(pv string) string
	// inside a loop whose state carries the early-return variable: its name
	retVar string
	// the text that follows a loop that may have set the early-return variable `rv` (nil: unsupported here)
	after func(rv, ind string) string
}

const nilDerefPanic = `({ msg := "runtime error: invalid memory address or nil pointer dereference", args := [] } : GoPanic)`

// panText: a panic as a value of the function's result type
func (c *bctx) panText(pv string) string {
	if c.exc {
		return ".panic " + pv
	}
	return "none"
}

// dummyK: a continuation for scratch translations; it records that the statements may leave the function
func (c *bctx) dummyK() bcont {
	return bcont{fall: "()", cont: "()", brk: "()", brkVar: "brk_scratch",
		ret:   func([]string) string { c.sawExit = true; return "()" },
		pan:   func(string) string { c.sawExit = true; return "()" },
		after: func(string, string) string { return "" }}
}

// flushHoists emits the nil checks collected while the current statement was translated
func (c *bctx) flushHoists(out *strings.Builder, ind string) {
	if len(c.hoists) == 0 {
		return
	}
	hs := c.hoists
	c.hoists = nil
	if c.noBind > 0 {
		problem("%s: dereference of a pointer that may be nil inside a joining branch", c.where)
		return
	}
	if c.curK == nil || c.curK.pan == nil {
		problem("%s: dereference of a pointer that may be nil where a panic cannot be yielded", c.where)
		return
	}
	c.mayPanic = true
	for _, h := range hs {
		fmt.Fprintf(out, "%smatch %s with\n%s| none => %s\n%s| some %s =>\n", ind, h.ptr, ind, c.curK.pan(nilDerefPanic), ind, h.name)
	}
}

func (c *bctx) bad(n ast.Node, what string) (string, *gty) {
	problem("%s: unsupported %s: %s", c.where, what, strings.ReplaceAll(src(n), "\n", " "))
	return "sorry_unsupported", tyUnk
}

func (c *bctx) fresh(prefix string) string {
	c.tmp++
	return fmt.Sprintf("%s_%d", prefix, c.tmp)
}

// resolve substitutes aliases in an lvalue/rvalue path
func (c *bctx) resolve(e ast.Expr) ast.Expr {
	switch x := e.(type) {
	case *ast.ParenExpr:
		return c.resolve(x.X)
	case *ast.StarExpr:
		return c.resolve(x.X)
	case *ast.UnaryExpr:
		if x.Op == token.AND {
			return c.resolve(x.X)
		}
	case *ast.Ident:
		if v, ok := c.vars[x.Name]; ok && v.alias != nil {
			return v.alias
		}
	case *ast.SelectorExpr:
		return &ast.SelectorExpr{X: c.resolve(x.X), Sel: x.Sel}
	case *ast.IndexExpr:
		return &ast.IndexExpr{X: c.resolve(x.X), Index: x.Index}
	}
	return e
}

func rootOf(e ast.Expr) string {
	switch x := e.(type) {
	case *ast.Ident:
		return x.Name
	case *ast.SelectorExpr:
		return rootOf(x.X)
	case *ast.IndexExpr:
		return rootOf(x.X)
	case *ast.ParenExpr:
		return rootOf(x.X)
	case *ast.StarExpr:
		return rootOf(x.X)
	case *ast.UnaryExpr:
		return rootOf(x.X)
	}
	return ""
}

func (c *bctx) typeOfStructField(base *gty, f string, n ast.Node) *gty {
	bt := base.deref()
	if bt.kind != "named" {
		c.bad(n, "field access on non-struct")
		return tyUnk
	}
	ty, _, ok := c.b.field(bt.name, f)
	if !ok {
		c.bad(n, "unknown field "+f+" of "+bt.name)
		return tyUnk
	}
	return ty
}

// expr translates an rvalue
func (c *bctx) expr(e ast.Expr) (string, *gty) {
	switch x := e.(type) {
	case *ast.ParenExpr:
		s, t := c.expr(x.X)
		return "(" + s + ")", t
	case *ast.BasicLit:
		if x.Kind == token.INT {
			return x.Value, tyInt
		}
		return c.bad(e, "literal")
	case *ast.Ident:
		switch x.Name {
		case "true":
			return "true", tyBool
		case "false":
			return "false", tyBool
		}
		if v, ok := c.vars[x.Name]; ok {
			if v.alias != nil && !v.bound {
				return c.expr(v.alias)
			}
			if v.dead {
				return c.bad(e, "use of a local slice after the slice it was taken from was re-assigned")
			}
			return x.Name, v.ty
		}
		if val, ok := c.b.consts[x.Name]; ok {
			return val, tyInt
		}
		return c.bad(e, "identifier")
	case *ast.StarExpr:
		s, t := c.expr(x.X)
		return s, t.deref()
	case *ast.UnaryExpr:
		switch x.Op {
		case token.AND:
			s, t := c.expr(x.X)
			return s, &gty{kind: "ptr", elem: t}
		case token.NOT:
			s, _ := c.expr(x.X)
			return "(!" + s + ")", tyBool
		}
		return c.bad(e, "unary operator")
	case *ast.SelectorExpr:
		if id, ok := x.X.(*ast.Ident); ok && id.Name == "math" {
			if x.Sel.Name == "MaxUint32" {
				return "maxU32", tyInt
			}
			return c.bad(e, "math constant")
		}
		bs, bt := c.expr(x.X)
		if bt.isNilable() {
			// Go panics when the pointer is nil: the check is hoisted in front of the statement
			pn := c.fresh("p")
			c.hoists = append(c.hoists, hoist{bs, pn})
			ft := c.typeOfStructField(bt.elem, x.Sel.Name, e)
			return "(" + pn + ")." + x.Sel.Name, ft
		}
		ft := c.typeOfStructField(bt, x.Sel.Name, e)
		return "(" + bs + ")." + x.Sel.Name, ft
	case *ast.IndexExpr:
		bs, bt := c.expr(x.X)
		is, _ := c.expr(x.Index)
		bt = bt.deref()
		switch bt.kind {
		case "slice":
			return "((" + bs + ").getD (" + is + ") " + c.b.dflt(bt.elem) + ")", bt.elem
		case "map":
			return "((AL.find? (" + bs + ") (" + is + ")).getD " + c.b.dflt(bt.elem) + ")", bt.elem
		}
		return c.bad(e, "index into non-slice/map")
	case *ast.SliceExpr:
		bs, bt := c.expr(x.X)
		if x.Max != nil {
			return c.bad(e, "3-index slice")
		}
		s := "(" + bs + ")"
		if x.Low != nil {
			ls, _ := c.expr(x.Low)
			if x.High != nil {
				hs, _ := c.expr(x.High)
				return "((" + s + ".take (" + hs + ")).drop (" + ls + "))", bt
			}
			return "(" + s + ".drop (" + ls + "))", bt
		}
		if x.High != nil {
			hs, _ := c.expr(x.High)
			return "(" + s + ".take (" + hs + "))", bt
		}
		return s, bt
	case *ast.BinaryExpr:
		// comparison of a pointer with nil
		if x.Op == token.EQL || x.Op == token.NEQ {
			other := ast.Expr(nil)
			if id, ok := x.Y.(*ast.Ident); ok && id.Name == "nil" {
				other = x.X
			} else if id, ok := x.X.(*ast.Ident); ok && id.Name == "nil" {
				other = x.Y
			}
			if other != nil {
				os, ot := c.expr(other)
				if !ot.isNilable() {
					return c.bad(e, "comparison with nil of something that is not a pointer that may be nil")
				}
				if x.Op == token.EQL {
					return "(" + os + ").isNone", tyBool
				}
				return "(" + os + ").isSome", tyBool
			}
		}
		ls, lt := c.expr(x.X)
		nh := len(c.hoists)
		rs, _ := c.expr(x.Y)
		if (x.Op == token.LAND || x.Op == token.LOR) && len(c.hoists) > nh {
			return c.bad(e, "dereference of a pointer that may be nil in the right operand of && / ||")
		}
		switch x.Op {
		case token.ADD:
			return "(" + ls + " + " + rs + ")", tyInt
		case token.SUB:
			c.under = append(c.under, src(e))
			return "(" + ls + " - " + rs + ")", tyInt
		case token.MUL:
			return "(" + ls + " * " + rs + ")", tyInt
		case token.EQL:
			return "(" + ls + " == " + rs + ")", tyBool
		case token.NEQ:
			return "(" + ls + " != " + rs + ")", tyBool
		case token.LSS:
			if a, b, ok := c.signOf(x.X, x.Y); ok { // (a - b) < 0  ⟺  a < b
				return "(decide (" + a + " < " + b + "))", tyBool
			}
			return "(decide (" + ls + " < " + rs + "))", tyBool
		case token.LEQ:
			return "(decide (" + ls + " ≤ " + rs + "))", tyBool
		case token.GTR:
			return "(decide (" + ls + " > " + rs + "))", tyBool
		case token.GEQ:
			return "(decide (" + ls + " ≥ " + rs + "))", tyBool
		case token.LAND:
			return "(" + ls + " && " + rs + ")", tyBool
		case token.LOR:
			return "(" + ls + " || " + rs + ")", tyBool
		}
		_ = lt
		return c.bad(e, "binary operator")
	case *ast.CompositeLit:
		return c.composite(x)
	case *ast.CallExpr:
		return c.call(x)
	}
	return c.bad(e, "expression")
}

func (c *bctx) composite(x *ast.CompositeLit) (string, *gty) {
	ty := c.b.goType(x.Type, nil)
	switch ty.kind {
	case "map":
		if len(x.Elts) == 0 {
			return "[]", ty
		}
	case "slice":
		var parts []string
		for _, el := range x.Elts {
			s, _ := c.expr(el)
			parts = append(parts, s)
		}
		return "[" + strings.Join(parts, ", ") + "]", ty
	case "named":
		if z, ok := bookExtZero[ty.name]; ok && len(x.Elts) == 0 {
			return z, ty
		}
		gs, ok := c.b.gstructOf(ty.name)
		if !ok {
			break
		}
		var parts []string
		for i, el := range x.Elts {
			if kv, ok := el.(*ast.KeyValueExpr); ok {
				fname := kv.Key.(*ast.Ident).Name
				if _, _, ok := c.b.field(ty.name, fname); !ok {
					return c.bad(x, "unknown field in literal")
				}
				s, _ := c.expr(kv.Value)
				parts = append(parts, fname+" := "+s)
			} else {
				if i >= len(gs.fields) {
					return c.bad(x, "positional literal")
				}
				gs.used[gs.fields[i].name] = true
				s, _ := c.expr(el)
				parts = append(parts, gs.fields[i].name+" := "+s)
			}
		}
		return "({ " + strings.Join(parts, ", ") + " } : " + c.b.leanStruct(ty.name) + ")", ty
	}
	return c.bad(x, "composite literal")
}

// call translates a call used as an rvalue (no receiver mutation allowed here)
func (c *bctx) call(x *ast.CallExpr) (string, *gty) {
	switch f := x.Fun.(type) {
	case *ast.Ident:
		switch {
		case f.Name == "len" && len(x.Args) == 1:
			s, _ := c.expr(x.Args[0])
			return "(" + s + ").length", tyInt
		case f.Name == "append":
			s, t := c.expr(x.Args[0])
			if x.Ellipsis.IsValid() && len(x.Args) == 2 {
				r, _ := c.expr(x.Args[1])
				return "(" + s + " ++ " + r + ")", t
			}
			var parts []string
			for _, a := range x.Args[1:] {
				r, _ := c.expr(a)
				parts = append(parts, r)
			}
			return "(" + s + " ++ [" + strings.Join(parts, ", ") + "])", t
		case f.Name == "make" && len(x.Args) >= 1:
			ty := c.b.goType(x.Args[0], nil)
			if ty.kind == "map" {
				return "[]", ty
			}
			if ty.kind == "slice" && len(x.Args) == 2 {
				n, _ := c.expr(x.Args[1])
				return "(List.replicate (" + n + ") " + c.b.dflt(ty.elem) + ")", ty
			}
			return c.bad(x, "make")
		case c.b.intTypes[f.Name] && len(x.Args) == 1: // conversion
			s, _ := c.expr(x.Args[0])
			// a narrowing conversion of a length wraps
			if ce, ok := x.Args[0].(*ast.CallExpr); ok && src(ce.Fun) == "len" {
				switch f.Name {
				case "uint8":
					return "(" + s + " % 256)", tyInt
				case "uint16":
					return "(" + s + " % 65536)", tyInt
				}
			}
			return s, tyInt
		case (f.Name == "max" || f.Name == "min") && len(x.Args) == 2: // builtin
			a, _ := c.expr(x.Args[0])
			b2, _ := c.expr(x.Args[1])
			return "(Nat." + f.Name + " (" + a + ") (" + b2 + "))", tyInt
		case bookExtFuncs[f.Name] != "":
			var args []string
			for _, a := range x.Args {
				s, _ := c.expr(a)
				args = append(args, "("+s+")")
			}
			return "(" + bookExtFuncs[f.Name] + " " + strings.Join(args, " ") + ")", tyInt
		default:
			// package-level function
			info := c.b.translate(bookFnKey{"", f.Name})
			if info == nil || !info.ok {
				return c.bad(x, "call of untranslated function")
			}
			if info.mayPanic {
				return c.bad(x, "call of a function that may panic in expression position")
			}
			var args []string
			if x.Ellipsis.IsValid() {
				return c.bad(x, "spread call")
			}
			// variadic: all arguments form the list
			if len(info.params) == 1 && info.params[0].ty.kind == "slice" && !(len(x.Args) == 1 && c.isSlice(x.Args[0])) {
				var parts []string
				for _, a := range x.Args {
					s, _ := c.expr(a)
					parts = append(parts, s)
				}
				args = []string{"[" + strings.Join(parts, ", ") + "]"}
			} else {
				for _, a := range x.Args {
					s, _ := c.expr(a)
					args = append(args, "("+s+")")
				}
			}
			return "(" + info.callee() + " " + strings.Join(args, " ") + ")", info.ret
		}
	case *ast.SelectorExpr:
		// method call without mutation
		rs, rt := c.expr(f.X)
		bt := rt.deref()
		if bt.kind != "named" {
			return c.bad(x, "method call on non-struct")
		}
		if em, ok := bookExtMethods[bookFnKey{bt.name, f.Sel.Name}]; ok {
			if em.mut {
				return c.bad(x, "mutating method call in expression position")
			}
			return c.extApp(em, rs, x.Args), em.ret
		}
		info := c.b.translate(bookFnKey{bt.name, f.Sel.Name})
		if info == nil || !info.ok {
			return c.bad(x, "call of untranslated method")
		}
		if info.mutRecv || len(info.ptrParams) > 0 || info.mayPanic {
			return c.bad(x, "mutating/panicking method call in expression position")
		}
		args := []string{"(" + rs + ")"}
		for _, a := range x.Args {
			s, _ := c.expr(a)
			args = append(args, "("+s+")")
		}
		return "(" + info.callee() + " " + strings.Join(args, " ") + ")", info.ret
	}
	return c.bad(x, "call")
}

func (c *bctx) isSlice(e ast.Expr) bool {
	saved := len(problems)
	nh := len(c.hoists)
	_, t := c.expr(e)
	c.hoists = c.hoists[:nh]
	problems = problems[:saved]
	return t.kind == "slice"
}

// panicValue renders the argument of `panic(…)` as a `GoPanic`: a string literal, or `fmt.Sprintf` of a
// literal format string and integer arguments (the format string is kept as the message)
func (c *bctx) panicValue(ce *ast.CallExpr) string {
	if len(ce.Args) != 1 {
		s, _ := c.bad(ce, "panic call")
		return s
	}
	lit := func(e ast.Expr) (string, bool) {
		bl, ok := e.(*ast.BasicLit)
		if !ok || bl.Kind != token.STRING || !strings.HasPrefix(bl.Value, "\"") || strings.Contains(bl.Value, "\\") {
			return "", false
		}
		return bl.Value, true
	}
	if m, ok := lit(ce.Args[0]); ok {
		return "({ msg := " + m + ", args := [] } : GoPanic)"
	}
	if call, ok := ce.Args[0].(*ast.CallExpr); ok && src(call.Fun) == "fmt.Sprintf" && len(call.Args) >= 1 {
		if m, ok := lit(call.Args[0]); ok {
			var args []string
			for _, a := range call.Args[1:] {
				as, at := c.expr(a)
				if at == nil || at.kind != "int" {
					s, _ := c.bad(ce, "panic message argument that is not an integer")
					return s
				}
				args = append(args, as)
			}
			return "({ msg := " + m + ", args := [" + strings.Join(args, ", ") + "] } : GoPanic)"
		}
	}
	s, _ := c.bad(ce, "panic message")
	return s
}

// read renders the current value of a resolved path
func (c *bctx) read(path ast.Expr) (string, *gty) { return c.expr(path) }

// setPath emits the lets that store `v` at the (resolved) path
func (c *bctx) setPath(path ast.Expr, v string, out *strings.Builder, ind string) {
	c.seq++
	c.setPath0(path, v, out, ind)
	c.viewsAfterWrite(path, out, ind)
}

func (c *bctx) setPath0(path ast.Expr, v string, out *strings.Builder, ind string) {
	switch x := path.(type) {
	case *ast.ParenExpr:
		c.setPath0(x.X, v, out, ind)
	case *ast.StarExpr:
		c.setPath0(x.X, v, out, ind)
	case *ast.Ident:
		vi, ok := c.vars[x.Name]
		if !ok {
			c.bad(path, "assignment to unknown variable")
			return
		}
		if vi.alias != nil {
			c.setPath0(vi.alias, v, out, ind)
			return
		}
		fmt.Fprintf(out, "%slet %s := %s\n", ind, x.Name, v)
		c.assigned[x.Name] = true
		if vi.root {
			c.mutated[x.Name] = true
		}
		// bindings of aliases into this variable are stale now
		for n, a := range c.vars {
			if a.alias != nil && rootOf(a.alias) == x.Name && n != x.Name {
				a.bound = false
			}
		}
	case *ast.SelectorExpr:
		bs, bt := c.read(x.X)
		if bt.isNilable() {
			c.bad(path, "assignment through a pointer that may be nil")
			return
		}
		c.typeOfStructField(bt, x.Sel.Name, path)
		c.setPath0(x.X, "({ ("+bs+") with "+x.Sel.Name+" := "+v+" } : "+c.b.leanType(bt)+")", out, ind)
	case *ast.IndexExpr:
		if id, ok := x.X.(*ast.Ident); ok {
			if vw, ok := c.vars[id.Name]; ok && vw.slice {
				if vw.view != nil && !vw.dead {
					// a view of a field: the write goes to the field's element, then the views are re-read
					var idx ast.Expr = x.Index
					if vw.viewLo != "" {
						idx = &ast.BinaryExpr{X: ast.NewIdent(vw.viewLo), Op: token.ADD, Y: x.Index}
					}
					target := &ast.IndexExpr{X: vw.view, Index: idx}
					c.setPath0(target, v, out, ind)
					c.viewsAfterWrite(target, out, ind)
					return
				}
				// slices are translated as values; an element write through a second slice header over the
				// same backing array would be lost
				c.bad(path, "element write through a local slice that aliases another slice")
				return
			}
		}
		bs, bt := c.read(x.X)
		is, _ := c.expr(x.Index)
		switch bt.deref().kind {
		case "slice":
			c.setPath0(x.X, "(("+bs+").set ("+is+") ("+v+"))", out, ind)
		case "map":
			c.setPath0(x.X, "(AL.insert ("+bs+") ("+is+") ("+v+"))", out, ind)
		default:
			c.bad(path, "indexed assignment")
		}
	default:
		c.bad(path, "assignment target")
	}
}

// stateTuple renders the tuple of variables `names` (sorted for determinism)
func tupleOf(names []string) string {
	if len(names) == 0 {
		return "()"
	}
	if len(names) == 1 {
		return names[0]
	}
	return "(" + strings.Join(names, ", ") + ")"
}

// terminates: does the block always end in return/continue/panic?
func terminates(stmts []ast.Stmt) bool {
	if len(stmts) == 0 {
		return false
	}
	switch s := stmts[len(stmts)-1].(type) {
	case *ast.ReturnStmt:
		return true
	case *ast.BranchStmt:
		return s.Tok == token.CONTINUE || (s.Tok == token.BREAK && s.Label == nil)
	case *ast.ExprStmt:
		if ce, ok := s.X.(*ast.CallExpr); ok {
			if id, ok := ce.Fun.(*ast.Ident); ok && id.Name == "panic" {
				return true
			}
		}
	case *ast.IfStmt:
		if s.Else == nil {
			return false
		}
		eb, ok := s.Else.(*ast.BlockStmt)
		if !ok {
			return false
		}
		return terminates(s.Body.List) && terminates(eb.List)
	}
	return false
}

// assignedIn collects the outer variables (by root, after alias resolution at the time of the
// scan) that the statements may assign; locals defined inside are excluded
func (c *bctx) assignedIn(stmts []ast.Stmt) []string {
	// translate into a scratch buffer with a copy of the context and look at `assigned`
	saveVars := map[string]*bvar{}
	for k, v := range c.vars {
		cp := *v
		saveVars[k] = &cp
	}
	saveAssigned, saveMut, saveUnder, saveTmp, savePanic := c.assigned, c.mutated, c.under, c.tmp, c.mayPanic
	saveHoists, saveK, saveNoBind := c.hoists, c.curK, c.noBind
	outer := map[string]bool{}
	for k := range c.vars {
		outer[k] = true
	}
	c.assigned = map[string]bool{}
	c.mutated = map[string]bool{}
	c.hoists = nil
	c.noBind = 0
	nprob := len(problems)
	var scratch strings.Builder
	c.block(stmts, c.dummyK(), &scratch, "")
	problems = problems[:nprob]
	c.hoists, c.curK, c.noBind = saveHoists, saveK, saveNoBind
	var names []string
	for k := range c.assigned {
		if outer[k] {
			names = append(names, k)
		}
	}
	sort.Strings(names)
	c.vars, c.assigned, c.mutated, c.under, c.tmp, c.mayPanic = saveVars, saveAssigned, saveMut, saveUnder, saveTmp, savePanic
	return names
}

// assignedBy runs `emit` on a scratch copy of the context and reports which outer variables it assigns
func (c *bctx) assignedBy(emit func()) []string {
	saveVars := c.copyVars()
	saveAssigned, saveMut, saveUnder, saveTmp, savePanic := c.assigned, c.mutated, c.under, c.tmp, c.mayPanic
	outer := map[string]bool{}
	for k := range c.vars {
		outer[k] = true
	}
	saveHoists, saveK := c.hoists, c.curK
	c.assigned = map[string]bool{}
	c.mutated = map[string]bool{}
	c.hoists = nil
	nprob := len(problems)
	emit()
	problems = problems[:nprob]
	c.hoists, c.curK = saveHoists, saveK
	var names []string
	for k := range c.assigned {
		if outer[k] {
			names = append(names, k)
		}
	}
	sort.Strings(names)
	c.restoreVars(saveVars)
	c.assigned, c.mutated, c.under, c.tmp, c.mayPanic = saveAssigned, saveMut, saveUnder, saveTmp, savePanic
	return names
}

func (c *bctx) markAssigned(names []string) {
	in := map[string]bool{}
	for _, n := range names {
		in[n] = true
	}
	for _, n := range names {
		for m, a := range c.vars {
			if a.view != nil && rootOf(a.view) == n && !in[m] {
				a.dead = true
			}
		}
	}
	for _, n := range names {
		c.assigned[n] = true
		if v, ok := c.vars[n]; ok && v.root {
			c.mutated[n] = true
		}
		for m, a := range c.vars {
			if a.alias != nil && rootOf(a.alias) == n && m != n {
				a.bound = false
			}
		}
	}
}

// define a new local
// signOf: `x OP 0` where x was defined as `a - b` and nothing was assigned since: the operands, re-translated
func (c *bctx) signOf(l, r ast.Expr) (string, string, bool) {
	if lit, ok := r.(*ast.BasicLit); !ok || lit.Value != "0" {
		return "", "", false
	}
	id, ok := l.(*ast.Ident)
	if !ok {
		return "", "", false
	}
	v, ok := c.vars[id.Name]
	if !ok || v.subA == nil || v.subSeq != c.seq {
		return "", "", false
	}
	saveUnder := c.under
	a, _ := c.expr(v.subA)
	b, _ := c.expr(v.subB)
	c.under = saveUnder
	return a, b, true
}

// refreshView re-reads the Lean value of the local slice `name` from the slice it is a view of
func (c *bctx) refreshView(name string, out *strings.Builder, ind string, reassigned bool) {
	v := c.vars[name]
	e := &ast.SliceExpr{X: v.view}
	if v.viewLo != "" {
		e.Low = ast.NewIdent(v.viewLo)
	}
	s, _ := c.expr(e)
	fmt.Fprintf(out, "%slet %s := %s\n", ind, name, s)
	if reassigned {
		c.assigned[name] = true
	}
}

// viewsAfterWrite: `path` was assigned.  Views of a slice that was re-assigned as a whole die; views of a
// slice one of whose elements was written are re-read.
func (c *bctx) viewsAfterWrite(path ast.Expr, out *strings.Builder, ind string) {
	ps := src(path)
	var names []string
	for n, v := range c.vars {
		if v.view != nil && !v.dead {
			names = append(names, n)
		}
	}
	sort.Strings(names)
	for _, n := range names {
		v := c.vars[n]
		bs := src(v.view)
		switch {
		case ps == bs || strings.HasPrefix(bs, ps+".") || strings.HasPrefix(bs, ps+"["):
			v.dead = true
		case strings.HasPrefix(ps, bs+"["):
			c.refreshView(n, out, ind, true)
		}
	}
}

func (c *bctx) define(name string, rhs ast.Expr, out *strings.Builder, ind string) {
	c.seq++
	defer func() {
		if be, ok := rhs.(*ast.BinaryExpr); ok && be.Op == token.SUB {
			if v, ok := c.vars[name]; ok && v.alias == nil {
				v.subA, v.subB, v.subSeq = be.X, be.Y, c.seq
			}
		}
	}()
	if ce, ok := rhs.(*ast.CallExpr); ok && c.bindCall(name, ce, out, ind) {
		return
	}
	if name == "_" {
		return
	}
	if sl, ok := rhs.(*ast.SliceExpr); ok && sl.High == nil && sl.Max == nil {
		base := c.resolve(sl.X)
		if _, isSel := base.(*ast.SelectorExpr); isSel && c.vars[rootOf(base)] != nil {
			_, bt := c.expr(base)
			if bt != nil && bt.kind == "slice" {
				lo := ""
				if sl.Low != nil {
					ls, _ := c.expr(sl.Low)
					lo = c.fresh("lo")
					fmt.Fprintf(out, "%slet %s := %s\n", ind, lo, ls)
					c.vars[lo] = &bvar{ty: tyInt}
				}
				c.vars[name] = &bvar{ty: bt, slice: true, view: base, viewLo: lo}
				c.refreshView(name, out, ind, false)
				return
			}
		}
	}
	s, t := c.expr(rhs)
	// reference semantics: pointer or map taken from an addressable path
	if t.isRef() {
		switch rhs.(type) {
		case *ast.UnaryExpr, *ast.SelectorExpr, *ast.IndexExpr, *ast.Ident:
			path := c.resolve(rhs)
			if rootOf(path) != "" {
				if _, ok := c.vars[rootOf(path)]; ok {
					c.vars[name] = &bvar{ty: t, alias: path, bound: false}
					return
				}
			}
		}
	}
	fmt.Fprintf(out, "%slet %s := %s\n", ind, name, s)
	c.vars[name] = &bvar{ty: t}
	if t.kind == "slice" {
		switch rhs.(type) {
		case *ast.SliceExpr, *ast.SelectorExpr, *ast.IndexExpr, *ast.Ident:
			c.vars[name].slice = true
		}
	}
}

// bindCall translates `name := recvExpr.M(args)` (or the bare call, name "_") for a translated method
// that mutates its receiver and/or may panic: the results are bound by a `let` or, when the callee may
// panic, by a `match` whose `some` arm is the rest of the function (so it is only possible where the
// rest of the function is the continuation: not in a branch that joins, not in a loop body).
// bindFuncCall: a call of a package-level function of the source that may panic (a helper the source
// factored out, e.g. a validation), bound like a panicking method call
func (c *bctx) bindFuncCall(name, fn string, x *ast.CallExpr, out *strings.Builder, ind string) bool {
	key := bookFnKey{"", fn}
	if _, isExt := bookExtFuncs[fn]; isExt {
		return false
	}
	if fd, _ := c.b.findDecl(key); fd == nil {
		return false
	}
	info := c.b.translate(key)
	if info == nil || !info.ok || !info.mayPanic {
		return false
	}
	if len(info.ptrParams) > 0 {
		c.bad(x, "call of a function that mutates pointer parameters")
		return true
	}
	var args []string
	for _, a := range x.Args {
		s, _ := c.expr(a)
		args = append(args, "("+s+")")
	}
	app := "(" + info.callee() + " " + strings.Join(args, " ") + ")"
	pat := "_"
	if info.ret != nil {
		pat = name
	}
	if c.noBind > 0 {
		c.bad(x, "call of a function that may panic inside a joining branch or a loop")
		return true
	}
	c.mayPanic = true
	if c.curK == nil || c.curK.pan == nil {
		c.bad(x, "call of a function that may panic where a panic cannot be yielded")
		return true
	}
	if info.exc != c.exc {
		c.bad(x, "call of a function that may panic and was translated with the other panic convention")
		return true
	}
	if c.exc {
		ev := c.fresh("e")
		fmt.Fprintf(out, "%smatch %s with\n%s| .panic %s => %s\n%s| .ok %s =>\n", ind, app, ind, ev, c.curK.pan(ev), ind, pat)
	} else {
		fmt.Fprintf(out, "%smatch %s with\n%s| none => %s\n%s| some %s =>\n", ind, app, ind, c.curK.pan(""), ind, pat)
	}
	if info.ret != nil && name != "_" {
		c.vars[name] = &bvar{ty: info.ret}
	}
	return true
}

func (c *bctx) bindCall(name string, x *ast.CallExpr, out *strings.Builder, ind string) bool {
	if id, isFn := x.Fun.(*ast.Ident); isFn {
		return c.bindFuncCall(name, id.Name, x, out, ind)
	}
	sel, ok := x.Fun.(*ast.SelectorExpr)
	if !ok {
		return false
	}
	saved := len(problems)
	nh := len(c.hoists)
	rs, rt := c.expr(sel.X)
	problems = problems[:saved]
	bt := rt.deref()
	if bt == nil || bt.kind != "named" || rt.isNilable() {
		c.hoists = c.hoists[:nh]
		return false
	}
	key := bookFnKey{bt.name, sel.Sel.Name}
	if _, isExt := bookExtMethods[key]; isExt {
		return false
	}
	if _, isSet := bookFieldSetters[key]; isSet {
		return false
	}
	if fd, _ := c.b.findDecl(key); fd == nil {
		return false
	}
	info := c.b.translate(key)
	if info == nil || !info.ok || !(info.mutRecv || info.mayPanic) {
		return false
	}
	if len(info.ptrParams) > 0 {
		c.bad(x, "call of a method that mutates pointer parameters")
		return true
	}
	args := []string{"(" + rs + ")"}
	for _, a := range x.Args {
		s, _ := c.expr(a)
		args = append(args, "("+s+")")
	}
	app := "(" + info.callee() + " " + strings.Join(args, " ") + ")"
	var parts []string
	r := ""
	if info.mutRecv {
		r = c.fresh("recv")
		parts = append(parts, r)
	}
	if info.ret != nil {
		parts = append(parts, name)
	}
	pat := "_"
	if len(parts) > 0 {
		pat = tupleOf(parts)
	}
	if info.mayPanic {
		if c.noBind > 0 {
			c.bad(x, "call of a method that may panic inside a joining branch or a loop")
			return true
		}
		c.mayPanic = true
		if c.curK == nil || c.curK.pan == nil {
			c.bad(x, "call of a method that may panic where a panic cannot be yielded")
			return true
		}
		if info.exc != c.exc {
			c.bad(x, "call of a method that may panic and was translated with the other panic convention")
			return true
		}
		if c.exc {
			ev := c.fresh("e")
			fmt.Fprintf(out, "%smatch %s with\n%s| .panic %s => %s\n%s| .ok %s =>\n", ind, app, ind, ev, c.curK.pan(ev), ind, pat)
		} else {
			fmt.Fprintf(out, "%smatch %s with\n%s| none => %s\n%s| some %s =>\n", ind, app, ind, c.curK.pan(""), ind, pat)
		}
	} else {
		fmt.Fprintf(out, "%slet %s := %s\n", ind, pat, app)
	}
	if info.ret != nil && name != "_" {
		c.vars[name] = &bvar{ty: info.ret}
	}
	if info.mutRecv {
		c.vars[r] = &bvar{ty: rt.deref()}
		c.setPath(c.resolve(sel.X), r, out, ind)
	}
	return true
}

// isMutexCall: `x.mu.Lock()` / `x.mu.Unlock()` on a field of a `sync` type. The translation is of the
// sequential semantics; these calls (and a deferred unlock) are erased. The mutex discipline itself is
// covered by the structural facts (Generated/FactsMutex.lean) and the race runs.
func (c *bctx) isMutexCall(x *ast.CallExpr) bool {
	sel, ok := x.Fun.(*ast.SelectorExpr)
	if !ok {
		return false
	}
	fs, ok := sel.X.(*ast.SelectorExpr)
	if !ok {
		return false
	}
	id, ok := fs.X.(*ast.Ident)
	if !ok {
		return false
	}
	v, ok := c.vars[id.Name]
	if !ok || v.ty == nil {
		return false
	}
	gs, ok := c.b.structs[v.ty.deref().name]
	if !ok {
		return false
	}
	for _, fl := range gs.fields {
		if fl.name == fs.Sel.Name && fl.ty.kind == "named" && strings.HasPrefix(fl.ty.name, "sync.") {
			return true
		}
	}
	return false
}

// mutating method call as a statement: recvExpr.M(args)
func (c *bctx) callStmt(x *ast.CallExpr, out *strings.Builder, ind string, k bcont, tail bool) (handled bool, text string) {
	sel, ok := x.Fun.(*ast.SelectorExpr)
	if !ok {
		return false, ""
	}
	_, rt := c.expr(sel.X)
	bt := rt.deref()
	if bt.kind != "named" {
		return false, ""
	}
	if em, ok := bookExtMethods[bookFnKey{bt.name, sel.Sel.Name}]; ok {
		if em.mut {
			rs, _ := c.expr(sel.X)
			c.setPath(c.resolve(sel.X), c.extApp(em, rs, x.Args), out, ind)
		}
		return true, ""
	}
	if fld, ok := bookFieldSetters[bookFnKey{bt.name, sel.Sel.Name}]; ok && len(x.Args) == 1 {
		if _, _, ok := c.b.field(bt.name, fld); !ok {
			c.bad(x, "field of a modelled setter")
			return true, ""
		}
		v, _ := c.expr(x.Args[0])
		c.setPath(&ast.SelectorExpr{X: c.resolve(sel.X), Sel: ast.NewIdent(fld)}, v, out, ind)
		return true, ""
	}
	info := c.b.translate(bookFnKey{bt.name, sel.Sel.Name})
	if info == nil || !info.ok {
		c.bad(x, "call of untranslated method")
		return true, ""
	}
	if len(info.ptrParams) > 0 {
		// the mutated pointer parameters come back after the receiver: bind them and write them back
		// through the argument expressions
		if info.mayPanic || info.ret != nil {
			c.bad(x, "call of a method that mutates pointer parameters and panics or returns a value")
			return true, ""
		}
		rs, _ := c.expr(sel.X)
		args := []string{"(" + rs + ")"}
		for _, a := range x.Args {
			as, _ := c.expr(a)
			args = append(args, "("+as+")")
		}
		app := "(" + info.callee() + " " + strings.Join(args, " ") + ")"
		var parts []string
		recvTmp := ""
		if info.mutRecv {
			recvTmp = c.fresh("recv")
			parts = append(parts, recvTmp)
		}
		tmps := map[string]string{}
		for _, pp := range info.ptrParams {
			t := c.fresh("out")
			tmps[pp] = t
			parts = append(parts, t)
		}
		fmt.Fprintf(out, "%slet %s := %s\n", ind, tupleOf(parts), app)
		if info.mutRecv {
			c.vars[recvTmp] = &bvar{ty: bt}
			c.setPath(c.resolve(sel.X), recvTmp, out, ind)
		}
		for i, pr := range info.params {
			if t, ok := tmps[pr.name]; ok {
				c.vars[t] = &bvar{ty: pr.ty.deref()}
				c.setPath(c.resolve(x.Args[i]), t, out, ind)
			}
		}
		return true, ""
	}
	if info.mayPanic {
		if !c.bindCall("_", x, out, ind) {
			c.bad(x, "call of a method that may panic")
		}
		return true, ""
	}
	rs, _ := c.expr(sel.X)
	args := []string{"(" + rs + ")"}
	for _, a := range x.Args {
		s, _ := c.expr(a)
		args = append(args, "("+s+")")
	}
	app := "(" + info.callee() + " " + strings.Join(args, " ") + ")"
	if info.mayPanic {
		c.bad(x, "call of a method that may panic (only allowed as `return r.m()`)")
		return true, ""
	}
	if !info.mutRecv {
		return true, "" // pure call as statement: no effect
	}
	newRecv := app
	if info.ret != nil {
		newRecv = app + ".1"
	}
	path := c.resolve(sel.X)
	// keep a Lean binding for an alias that is mutated through itself
	if id, ok := sel.X.(*ast.Ident); ok {
		if v, ok := c.vars[id.Name]; ok && v.alias != nil && v.bound {
			fmt.Fprintf(out, "%slet %s := %s\n", ind, id.Name, newRecv)
			c.setPath(path, id.Name, out, ind)
			v.bound = true
			return true, ""
		}
	}
	c.setPath(path, newRecv, out, ind)
	return true, ""
}

// block translates a statement list; the result is an expression (a let-chain)
func (c *bctx) block(stmts []ast.Stmt, k bcont, out *strings.Builder, ind string) {
	for i, st := range stmts {
		kk := k
		c.curK = &kk
		switch st.(type) {
		case *ast.IfStmt, *ast.RangeStmt, *ast.ForStmt:
			// compound: the nil checks of a condition are emitted where the condition is
			if c.stmt(st, stmts[i+1:], k, out, ind) {
				return
			}
			if len(c.hoists) > 0 {
				c.hoists = nil
				c.bad(st, "dereference of a pointer that may be nil in this position")
			}
		default:
			// the nil checks of the pointers the statement dereferences come first
			var sb strings.Builder
			done := c.stmt(st, stmts[i+1:], k, &sb, ind)
			c.flushHoists(out, ind)
			out.WriteString(sb.String())
			if done {
				return
			}
		}
	}
	fmt.Fprintf(out, "%s%s\n", ind, k.fall)
}

// stmt translates one statement; true: control does not reach the next statement (or the statement
// consumed the rest of the block)
func (c *bctx) stmt(st ast.Stmt, rest []ast.Stmt, k bcont, out *strings.Builder, ind string) bool {
	{
		switch s := st.(type) {
		case *ast.AssignStmt:
			c.assign(s, out, ind)
		case *ast.IncDecStmt:
			cur, _ := c.expr(s.X)
			if s.Tok == token.INC {
				c.setPath(c.resolve(s.X), "("+cur+" + 1)", out, ind)
			} else {
				c.under = append(c.under, src(s))
				c.setPath(c.resolve(s.X), "("+cur+" - 1)", out, ind)
			}
		case *ast.ExprStmt:
			ce, ok := s.X.(*ast.CallExpr)
			if !ok {
				c.bad(s, "expression statement")
				return false
			}
			if id, ok := ce.Fun.(*ast.Ident); ok {
				switch id.Name {
				case "panic":
					c.mayPanic = true
					pv := ""
					if c.exc {
						pv = c.panicValue(ce)
					}
					if k.pan == nil {
						c.bad(s, "panic where it cannot be yielded")
						return true
					}
					fmt.Fprintf(out, "%s%s\n", ind, k.pan(pv))
					return true
				case "delete":
					ms, _ := c.expr(ce.Args[0])
					ks, _ := c.expr(ce.Args[1])
					c.setPath(c.resolve(ce.Args[0]), "(AL.erase ("+ms+") ("+ks+"))", out, ind)
					return false
				case "copy":
					c.bad(s, "copy")
					return false
				}
			}
			if c.isMutexCall(ce) {
				return false
			}
			if _, isFn := ce.Fun.(*ast.Ident); isFn && c.bindCall("_", ce, out, ind) {
				return false
			}
			if handled, _ := c.callStmt(ce, out, ind, k, false); !handled {
				c.bad(s, "call statement")
			}
		case *ast.DeferStmt:
			if !c.isMutexCall(s.Call) {
				c.bad(s, "defer")
			}
		case *ast.ReturnStmt:
			// tail call of a method on the receiver that mutates it
			if len(s.Results) == 1 {
				if ce, ok := s.Results[0].(*ast.CallExpr); ok {
					if sel, ok := ce.Fun.(*ast.SelectorExpr); ok {
						if id, ok := sel.X.(*ast.Ident); ok && id.Name == c.recv {
							info := c.b.translate(bookFnKey{c.info.recvTy, sel.Sel.Name})
							if info != nil && info.ok && (info.mutRecv || info.mayPanic) {
								args := []string{c.recv}
								for _, a := range ce.Args {
									as, _ := c.expr(a)
									args = append(args, "("+as+")")
								}
								app := "(" + info.callee() + " " + strings.Join(args, " ") + ")"
								c.mutated[c.recv] = c.mutated[c.recv] || info.mutRecv
								fmt.Fprintf(out, "%s%s\n", ind, "TAILCALL["+fmt.Sprint(info.mayPanic)+"]"+app)
								if info.mayPanic {
									c.mayPanic = true
								}
								return true
							}
						}
					}
				}
			}
			var vals []string
			for i, r := range s.Results {
				if id, ok := r.(*ast.Ident); ok && id.Name == "nil" && len(s.Results) == 1 && c.info.ret != nil &&
					(c.info.ret.kind == "slice" || c.info.ret.kind == "map") {
					vals = append(vals, "[]") // a nil slice is the empty list
					continue
				}
				// a pointer result that may be nil: `nil` is `none`, a pointer is `some` of the value it points to
				if len(s.Results) == len(c.info.retParts) && c.info.retParts[i].isNilable() {
					if id, ok := r.(*ast.Ident); ok && id.Name == "nil" {
						vals = append(vals, "none")
						continue
					}
					rs, rt := c.expr(r)
					if rt.isNilable() {
						vals = append(vals, rs)
					} else {
						vals = append(vals, "(some ("+rs+"))")
					}
					continue
				}
				rs, _ := c.expr(r)
				vals = append(vals, rs)
			}
			fmt.Fprintf(out, "%s%s\n", ind, k.ret(vals))
			return true
		case *ast.BranchStmt:
			if s.Tok == token.CONTINUE && k.cont != "" {
				fmt.Fprintf(out, "%s%s\n", ind, k.cont)
				return true
			}
			if s.Tok == token.BREAK && s.Label == nil && k.brk != "" {
				fmt.Fprintf(out, "%slet %s := true\n%s%s\n", ind, k.brkVar, ind, k.brk)
				return true
			}
			c.bad(s, "branch statement")
			return true
		case *ast.IfStmt:
			if c.ifStmt(s, rest, k, out, ind) {
				return true
			}
		case *ast.RangeStmt:
			c.rangeStmt(s, k, out, ind)
		case *ast.ForStmt:
			c.forStmt(s, k, out, ind)
		case *ast.DeclStmt:
			gd, ok := s.Decl.(*ast.GenDecl)
			if !ok || gd.Tok != token.VAR {
				c.bad(s, "declaration")
				return false
			}
			for _, sp := range gd.Specs {
				vs := sp.(*ast.ValueSpec)
				if vs.Type == nil || len(vs.Values) != 0 {
					c.bad(s, "var declaration with initialiser")
					return false
				}
				ty := c.b.goType(vs.Type, nil)
				zero := ""
				switch ty.kind {
				case "int":
					zero = "0"
				case "bool":
					zero = "false"
				case "slice", "map":
					zero = "[]"
				case "named":
					zero = bookExtZero[ty.name]
					if zero == "" {
						// Go's zero value of a translated struct: every generated field carries its zero value
						// as its Lean default (a field without one makes `{}` fail to elaborate: loud, not wrong)
						if _, ok := c.b.gstructOf(ty.name); ok {
							zero = "({} : " + c.b.leanType(ty) + ")"
						}
					}
				}
				if zero == "" {
					c.bad(s, "var declaration of this type")
					return false
				}
				for _, n := range vs.Names {
					fmt.Fprintf(out, "%slet %s := %s\n", ind, n.Name, zero)
					c.vars[n.Name] = &bvar{ty: ty}
				}
			}
		default:
			c.bad(st, "statement")
		}
	}
	return false
}

func (c *bctx) assign(s *ast.AssignStmt, out *strings.Builder, ind string) {
	if s.Tok == token.DEFINE {
		if len(s.Lhs) == len(s.Rhs) {
			for i := range s.Lhs {
				id, ok := s.Lhs[i].(*ast.Ident)
				if !ok {
					c.bad(s, "definition")
					return
				}
				c.define(id.Name, s.Rhs[i], out, ind)
			}
			return
		}
		// v, ok := m[k]
		if len(s.Lhs) == 2 && len(s.Rhs) == 1 {
			if ix, ok := s.Rhs[0].(*ast.IndexExpr); ok {
				ms, mt := c.expr(ix.X)
				if mt.deref().kind == "map" {
					ks, _ := c.expr(ix.Index)
					vn, on := s.Lhs[0].(*ast.Ident).Name, s.Lhs[1].(*ast.Ident).Name
					el := mt.deref().elem
					if el.isRef() {
						// the value is an alias of the map entry (write-back through it); `ok` is a plain flag
						frozen := c.fresh("key")
						fmt.Fprintf(out, "%slet %s := %s\n", ind, frozen, ks)
						c.vars[frozen] = &bvar{ty: tyInt}
						if vn != "_" {
							c.vars[vn] = &bvar{ty: el, alias: &ast.IndexExpr{X: c.resolve(ix.X), Index: ast.NewIdent(frozen)}}
						}
						if on != "_" {
							fmt.Fprintf(out, "%slet %s := (AL.find? (%s) (%s)).isSome\n", ind, on, ms, frozen)
							c.vars[on] = &bvar{ty: tyBool}
						}
						return
					}
					if vn != "_" {
						fmt.Fprintf(out, "%slet %s := ((AL.find? (%s) (%s)).getD %s)\n", ind, vn, ms, ks, c.b.dflt(el))
						c.vars[vn] = &bvar{ty: el}
					}
					if on != "_" {
						fmt.Fprintf(out, "%slet %s := (AL.find? (%s) (%s)).isSome\n", ind, on, ms, ks)
						c.vars[on] = &bvar{ty: tyBool}
					}
					return
				}
			}
		}
		c.bad(s, "multi-value definition")
		return
	}
	if s.Tok != token.ASSIGN {
		// compound assignment
		if len(s.Lhs) == 1 {
			cur, _ := c.expr(s.Lhs[0])
			r, _ := c.expr(s.Rhs[0])
			switch s.Tok {
			case token.ADD_ASSIGN:
				c.setPath(c.resolve(s.Lhs[0]), "("+cur+" + "+r+")", out, ind)
				return
			case token.SUB_ASSIGN:
				c.under = append(c.under, src(s))
				c.setPath(c.resolve(s.Lhs[0]), "("+cur+" - "+r+")", out, ind)
				return
			}
		}
		c.bad(s, "compound assignment")
		return
	}
	if len(s.Lhs) != len(s.Rhs) {
		c.bad(s, "multi-value assignment")
		return
	}
	if len(s.Lhs) == 1 {
		if id, ok := s.Lhs[0].(*ast.Ident); ok && id.Name == "_" {
			if ce, ok := s.Rhs[0].(*ast.CallExpr); ok {
				if handled, _ := c.callStmt(ce, out, ind, bcont{}, false); handled {
					return
				}
			}
			return
		}
		// the cached base pointer of a slice (`p.pointer = unsafe.Pointer(&p.entities[0])`) is not
		// part of the translated state
		if ce, ok := s.Rhs[0].(*ast.CallExpr); ok && src(ce.Fun) == "unsafe.Pointer" {
			return
		}
		// `x = nil`: the zero value of the target's type
		if id, ok := s.Rhs[0].(*ast.Ident); ok && id.Name == "nil" {
			_, lt := c.expr(s.Lhs[0])
			c.setPath(c.resolve(s.Lhs[0]), c.b.dflt(lt), out, ind)
			return
		}
		// `m[k] = &local` stores the value of the local
		r, _ := c.expr(s.Rhs[0])
		c.setPath(c.resolve(s.Lhs[0]), r, out, ind)
		return
	}
	// tuple assignment: Go evaluates index operands on the left and all right-hand sides first
	lhs := make([]ast.Expr, len(s.Lhs))
	for i, l := range s.Lhs {
		lhs[i] = c.freezeIndices(c.resolve(l), out, ind)
	}
	tmps := make([]string, len(s.Rhs))
	for i, r := range s.Rhs {
		rs, rt := c.expr(r)
		tmps[i] = c.fresh("rhs")
		fmt.Fprintf(out, "%slet %s := %s\n", ind, tmps[i], rs)
		c.vars[tmps[i]] = &bvar{ty: rt}
	}
	for i, l := range lhs {
		if id, ok := l.(*ast.Ident); ok && id.Name == "_" {
			continue
		}
		c.setPath(l, tmps[i], out, ind)
	}
}

// freezeIndices replaces index operands of an lvalue by fresh temporaries holding their
// current values
func (c *bctx) freezeIndices(path ast.Expr, out *strings.Builder, ind string) ast.Expr {
	switch x := path.(type) {
	case *ast.SelectorExpr:
		return &ast.SelectorExpr{X: c.freezeIndices(x.X, out, ind), Sel: x.Sel}
	case *ast.IndexExpr:
		is, it := c.expr(x.Index)
		t := c.fresh("idx")
		fmt.Fprintf(out, "%slet %s := %s\n", ind, t, is)
		c.vars[t] = &bvar{ty: it}
		return &ast.IndexExpr{X: c.freezeIndices(x.X, out, ind), Index: ast.NewIdent(t)}
	}
	return path
}

// ifStmt; returns true when it consumed the rest of the block
func (c *bctx) ifStmt(s *ast.IfStmt, rest []ast.Stmt, k bcont, out *strings.Builder, ind string) bool {
	var elseList []ast.Stmt
	hasElse := false
	if s.Else != nil {
		eb, ok := s.Else.(*ast.BlockStmt)
		if !ok {
			// else if
			elseList = []ast.Stmt{s.Else.(ast.Stmt)}
		} else {
			elseList = eb.List
		}
		hasElse = true
	}
	// header `v, ok := m[k]; ok`
	var mapVar, mapText, keyText string
	var mapPath ast.Expr
	var elemTy *gty
	negated := false
	if s.Init != nil {
		as, ok := s.Init.(*ast.AssignStmt)
		cid, cok := s.Cond.(*ast.Ident)
		if ue, isNot := s.Cond.(*ast.UnaryExpr); isNot && ue.Op == token.NOT {
			if id2, ok2 := ue.X.(*ast.Ident); ok2 {
				cid, cok = id2, true
				negated = true
			}
		}
		if !ok || as.Tok != token.DEFINE || len(as.Lhs) != 2 || len(as.Rhs) != 1 || !cok {
			c.bad(s, "if header")
			return false
		}
		ix, ok := as.Rhs[0].(*ast.IndexExpr)
		okName := as.Lhs[1].(*ast.Ident).Name
		if !ok || cid.Name != okName {
			c.bad(s, "if header")
			return false
		}
		ms, mt := c.expr(ix.X)
		if mt.deref().kind != "map" {
			c.bad(s, "comma-ok on non-map")
			return false
		}
		ks, _ := c.expr(ix.Index)
		mapVar = as.Lhs[0].(*ast.Ident).Name
		mapText, keyText = ms, ks
		elemTy = mt.deref().elem
		frozen := c.fresh("key")
		fmt.Fprintf(out, "%slet %s := %s\n", ind, frozen, ks)
		c.vars[frozen] = &bvar{ty: tyInt}
		keyText = frozen
		mapPath = &ast.IndexExpr{X: c.resolve(ix.X), Index: ast.NewIdent(frozen)}
	}
	thenTerm := terminates(s.Body.List)
	elseTerm := hasElse && terminates(elseList)

	emitBranches := func(thenK, elseK bcont, elseStmts []ast.Stmt, b *strings.Builder, ind2 string) {
		saveVars := c.copyVars()
		if mapVar != "" {
			fmt.Fprintf(b, "%smatch AL.find? (%s) (%s) with\n", ind2, mapText, keyText)
			if mapVar == "_" {
				fmt.Fprintf(b, "%s| some _ =>\n", ind2)
			} else {
				fmt.Fprintf(b, "%s| some %s =>\n", ind2, mapVar)
				if elemTy.isRef() {
					c.vars[mapVar] = &bvar{ty: elemTy, alias: mapPath, bound: true}
				} else {
					c.vars[mapVar] = &bvar{ty: elemTy}
				}
			}
			if negated {
				c.block(elseStmts, elseK, b, ind2+"  ")
			} else {
				c.block(s.Body.List, thenK, b, ind2+"  ")
			}
			c.restoreVars(saveVars)
			fmt.Fprintf(b, "%s| none =>\n", ind2)
			if negated {
				c.block(s.Body.List, thenK, b, ind2+"  ")
			} else {
				c.block(elseStmts, elseK, b, ind2+"  ")
			}
			c.restoreVars(saveVars)
			return
		}
		// a condition that is a call of a method that may panic or mutates its receiver (`if x.m() {` / `if !x.m() {`)
		// is bound first
		cs := ""
		if call, neg := c.panickingCond(s.Cond); call != nil {
			tmp := c.fresh("cond")
			if !c.bindCall(tmp, call, b, ind2) {
				c.bad(s.Cond, "condition that may panic")
			}
			cs = tmp
			if neg {
				cs = "(!" + tmp + ")"
			}
		} else {
			cs, _ = c.expr(s.Cond)
		}
		c.flushHoists(b, ind2)
		fmt.Fprintf(b, "%sif %s then\n", ind2, cs)
		c.block(s.Body.List, thenK, b, ind2+"  ")
		c.restoreVars(saveVars)
		fmt.Fprintf(b, "%selse\n", ind2)
		c.block(elseStmts, elseK, b, ind2+"  ")
		c.restoreVars(saveVars)
	}

	switch {
	case thenTerm && (!hasElse || elseTerm):
		// if c { …; return } [else { …; return }] ; rest   ⇒   if c then … else (else…; rest)
		var restAll []ast.Stmt
		restAll = append(restAll, elseList...)
		if !elseTerm {
			restAll = append(restAll, rest...)
		}
		emitBranches(k, k, restAll, out, ind)
		return true
	case !thenTerm && !elseTerm:
		// both fall through: the branches yield the variables they assign
		dummy := c.dummyK()
		names := c.assignedBy(func() {
			var scratch strings.Builder
			emitBranches(dummy, dummy, elseList, &scratch, "")
		})
		tup := tupleOf(names)
		sub := bcont{fall: tup, ret: func([]string) string {
			problem("%s: return inside a branch that also falls through", c.where)
			return tup
		}, pan: func(string) string {
			problem("%s: panic inside a branch that also falls through", c.where)
			return tup
		}, cont: ""}
		if k.cont != "" {
			// a `continue` nested deeper is not supported in a fall-through branch
			sub.cont = ""
		}
		if len(names) == 0 {
			// no effect on outer variables (e.g. only pure calls)
			var scratch strings.Builder
			emitBranches(sub, sub, elseList, &scratch, ind)
			return false
		}
		fmt.Fprintf(out, "%slet %s :=\n", ind, tup)
		c.noBind++
		emitBranches(sub, sub, elseList, out, ind+"  ")
		c.noBind--
		c.markAssigned(names)
		return false
	default:
		// else terminates but then falls through: swap by negation is not attempted
		c.bad(s, "if with one terminating and one falling branch and an else")
		return false
	}
}

// panickingCond: the condition is `x.m(…)` or `!x.m(…)` for a translated method m that may panic
func (c *bctx) panickingCond(e ast.Expr) (*ast.CallExpr, bool) {
	neg := false
	if pe, ok := e.(*ast.ParenExpr); ok {
		e = pe.X
	}
	if ue, ok := e.(*ast.UnaryExpr); ok && ue.Op == token.NOT {
		neg = true
		e = ue.X
	}
	ce, ok := e.(*ast.CallExpr)
	if !ok {
		return nil, false
	}
	sel, ok := ce.Fun.(*ast.SelectorExpr)
	if !ok {
		return nil, false
	}
	saved, nh := len(problems), len(c.hoists)
	_, rt := c.expr(sel.X)
	problems, c.hoists = problems[:saved], c.hoists[:nh]
	bt := rt.deref()
	if bt == nil || bt.kind != "named" || rt.isNilable() {
		return nil, false
	}
	key := bookFnKey{bt.name, sel.Sel.Name}
	if _, isExt := bookExtMethods[key]; isExt {
		return nil, false
	}
	if fd, _ := c.b.findDecl(key); fd == nil {
		return nil, false
	}
	info := c.b.translate(key)
	if info == nil || !info.ok || !(info.mayPanic || info.mutRecv || len(info.ptrParams) > 0) {
		return nil, false
	}
	return ce, neg
}

// hasBreak: does the statement list contain a `break` of the enclosing loop (not of a nested loop or switch)?
func hasBreak(stmts []ast.Stmt) bool {
	for _, st := range stmts {
		switch s := st.(type) {
		case *ast.BranchStmt:
			if s.Tok == token.BREAK && s.Label == nil {
				return true
			}
		case *ast.BlockStmt:
			if hasBreak(s.List) {
				return true
			}
		case *ast.IfStmt:
			if hasBreak(s.Body.List) {
				return true
			}
			if s.Else != nil && hasBreak([]ast.Stmt{s.Else}) {
				return true
			}
		}
	}
	return false
}

func (c *bctx) copyVars() map[string]*bvar {
	m := map[string]*bvar{}
	for k, v := range c.vars {
		cp := *v
		m[k] = &cp
	}
	return m
}

func (c *bctx) restoreVars(m map[string]*bvar) {
	c.vars = map[string]*bvar{}
	for k, v := range m {
		cp := *v
		c.vars[k] = &cp
	}
}

func (c *bctx) loop(rangeText string, idxName string, pre func(b *strings.Builder, ind string), body []ast.Stmt, k bcont, out *strings.Builder, ind string) {
	save := c.copyVars()
	// discover the loop state
	var scratch strings.Builder
	pre(&scratch, "")
	prevExit := c.sawExit
	c.sawExit = false
	names := c.assignedIn(body)
	exits := c.sawExit // the body may `return`, panic or call something that may panic
	c.sawExit = prevExit || exits
	c.restoreVars(save)
	if len(names) == 0 && !exits {
		// no effect on outer variables — or the body is not translatable: translate it once for
		// real (into a discarded buffer) so that a problem is recorded and not silently dropped
		var discard strings.Builder
		pre(&discard, "")
		c.block(body, c.dummyK(), &discard, "")
		c.restoreVars(save)
		return
	}
	// `break`: the loop state carries a flag; once set, the remaining iterations keep the state
	brkVar := ""
	if hasBreak(body) {
		brkVar = c.fresh("brk")
		fmt.Fprintf(out, "%slet %s := false\n", ind, brkVar)
		c.vars[brkVar] = &bvar{ty: tyBool}
		save[brkVar] = &bvar{ty: tyBool}
		names = append(names, brkVar)
	}
	// `return` / `panic` inside the loop: the loop state carries `ret : Option <result of the function>`;
	// once it is `some`, the remaining iterations keep the state. A loop nested in such a loop uses the
	// same variable.
	retVar := ""
	if exits {
		retVar = k.retVar
		if retVar == "" {
			retVar = c.fresh("ret")
			fmt.Fprintf(out, "%slet %s : Option (RESTYPE⟦⟧) := none\n", ind, retVar)
			c.vars[retVar] = &bvar{ty: tyUnk}
			save[retVar] = &bvar{ty: tyUnk}
		}
		has := false
		for _, n := range names {
			has = has || n == retVar
		}
		if !has {
			names = append(names, retVar)
		}
	}
	tup := tupleOf(names)
	fmt.Fprintf(out, "%slet %s := (%s).foldl (fun %s %s =>\n", ind, tup, rangeText, tup, idxName)
	bodyInd := ind + "  "
	if brkVar != "" {
		fmt.Fprintf(out, "%sif %s then %s else\n", bodyInd, brkVar, tup)
	}
	if retVar != "" {
		fmt.Fprintf(out, "%sif (%s).isSome then %s else\n", bodyInd, retVar, tup)
	}
	pre(out, bodyInd)
	kb := bcont{fall: tup, cont: tup, brk: tup, brkVar: brkVar, ret: func([]string) string {
		problem("%s: return inside a loop", c.where)
		return tup
	}}
	if brkVar == "" {
		kb.brk = ""
	}
	saveNoBind := c.noBind
	if retVar != "" {
		kb.retVar = retVar
		kb.ret = func(vals []string) string {
			return "let " + retVar + " : Option (RESTYPE⟦⟧) := some (RESULT⟦" + strings.Join(vals, " ;; ") + "⟧); " + tup
		}
		kb.pan = func(pv string) string {
			return "let " + retVar + " : Option (RESTYPE⟦⟧) := some (" + c.panText(pv) + "); " + tup
		}
		kb.after = func(rv, _ string) string { return "if (" + rv + ").isSome then " + tup + " else" }
		// the rest of the body is the continuation of a call that may panic
		c.noBind = 0
	} else {
		c.noBind++
	}
	c.block(body, kb, out, bodyInd)
	c.noBind = saveNoBind
	fmt.Fprintf(out, "%s) %s\n", ind+"  ", tup)
	c.restoreVars(save)
	c.markAssigned(names)
	if retVar != "" {
		if k.after == nil {
			problem("%s: a loop that may return or panic inside a branch that joins", c.where)
		} else if a := k.after(retVar, ind); a != "" {
			fmt.Fprintf(out, "%s%s\n", ind, a)
		}
	}
}

func (c *bctx) rangeStmt(s *ast.RangeStmt, k bcont, out *strings.Builder, ind string) {
	keyName, valName := "_", "_"
	if s.Key != nil {
		keyName = s.Key.(*ast.Ident).Name
	}
	if s.Value != nil {
		valName = s.Value.(*ast.Ident).Name
	}
	xs, xt := c.expr(s.X)
	xt = xt.deref()
	switch xt.kind {
	case "int":
		idx := keyName
		if idx == "_" {
			idx = c.fresh("i")
		}
		c.loop("List.range ("+xs+")", idx, func(b *strings.Builder, ind string) {
			c.vars[idx] = &bvar{ty: tyInt}
		}, s.Body.List, k, out, ind)
	case "slice":
		idx := keyName
		if idx == "_" {
			idx = c.fresh("i")
		}
		path := c.resolve(s.X)
		c.loop("List.range ("+xs+").length", idx, func(b *strings.Builder, ind string) {
			c.vars[idx] = &bvar{ty: tyInt}
			if valName != "_" {
				el := &ast.IndexExpr{X: path, Index: ast.NewIdent(idx)}
				if xt.elem.isRef() && rootOf(path) != "" {
					c.vars[valName] = &bvar{ty: xt.elem, alias: el}
				} else {
					es, _ := c.expr(el)
					fmt.Fprintf(b, "%slet %s := %s\n", ind, valName, es)
					c.vars[valName] = &bvar{ty: xt.elem}
				}
			}
		}, s.Body.List, k, out, ind)
	case "map":
		if keyName != "_" || valName == "_" || !xt.elem.isRef() {
			c.bad(s, "range over a map (only `for _, v := range m` with pointer values)")
			return
		}
		// the body may only update the visited value
		save := c.copyVars()
		c.vars[valName] = &bvar{ty: xt.elem}
		names := c.assignedIn(s.Body.List)
		if len(names) != 1 || names[0] != valName {
			c.restoreVars(save)
			if len(names) == 0 {
				var discard strings.Builder
				c.vars[valName] = &bvar{ty: xt.elem}
				c.block(s.Body.List, c.dummyK(), &discard, "")
				c.restoreVars(save)
				return
			}
			c.bad(s, "range over a map whose body assigns "+strings.Join(names, ","))
			return
		}
		var body strings.Builder
		km := bcont{fall: valName, cont: valName, ret: func([]string) string {
			problem("%s: return inside a loop", c.where)
			return valName
		}, pan: func(string) string {
			problem("%s: panic inside a loop over a map", c.where)
			return valName
		}}
		c.noBind++
		c.block(s.Body.List, km, &body, ind+"    ")
		c.noBind--
		c.restoreVars(save)
		c.setPath(c.resolve(s.X), "(AL.mapVals ("+xs+") (fun "+valName+" =>\n"+body.String()+ind+"  ))", out, ind)
	default:
		c.bad(s, "range expression")
	}
}

// for i := a; i < len(x); i++ { body }  where the body keeps len(x)
func (c *bctx) forStmt(s *ast.ForStmt, k bcont, out *strings.Builder, ind string) {
	init, ok1 := s.Init.(*ast.AssignStmt)
	cond, ok2 := s.Cond.(*ast.BinaryExpr)
	post, ok3 := s.Post.(*ast.IncDecStmt)
	// `for i := lo; i < hi; i++` and `for i = lo; i < hi; i++` (the variable is not used after the loop)
	if !ok1 || !ok2 || !ok3 || (init.Tok != token.DEFINE && init.Tok != token.ASSIGN) || len(init.Lhs) != 1 || cond.Op != token.LSS || post.Tok != token.INC {
		c.bad(s, "for statement")
		return
	}
	iv := init.Lhs[0].(*ast.Ident).Name
	if id, ok := cond.X.(*ast.Ident); !ok || id.Name != iv {
		c.bad(s, "for condition")
		return
	}
	if id, ok := post.X.(*ast.Ident); !ok || id.Name != iv {
		c.bad(s, "for post statement")
		return
	}
	// the bound: len(x) of a slice the body does not assign as a whole, or an integer variable the body
	// does not assign
	switch hi := cond.Y.(type) {
	case *ast.CallExpr:
		if src(hi.Fun) != "len" {
			c.bad(s, "for bound (only len(x) or a variable)")
			return
		}
		for _, st := range s.Body.List {
			if as, ok := st.(*ast.AssignStmt); ok {
				for _, l := range as.Lhs {
					if src(l) == src(hi.Args[0]) {
						c.bad(s, "loop body assigns the slice that bounds the loop")
						return
					}
				}
			}
		}
	case *ast.Ident:
		for _, n := range c.assignedIn(s.Body.List) {
			if n == hi.Name {
				c.bad(s, "loop body assigns the variable that bounds the loop")
				return
			}
		}
	default:
		c.bad(s, "for bound (only len(x) or a variable)")
		return
	}
	lo, _ := c.expr(init.Rhs[0])
	his, _ := c.expr(cond.Y)
	c.under = append(c.under, src(cond.Y)+" - "+src(init.Rhs[0]))
	c.loop("List.range' ("+lo+") ("+his+" - "+lo+")", iv, func(b *strings.Builder, ind string) {
		c.vars[iv] = &bvar{ty: tyInt}
	}, s.Body.List, k, out, ind)
}

// ---------------------------------------------------------------------------------------------
// functions
// ---------------------------------------------------------------------------------------------

func (b *book) isTarget(key bookFnKey) bool {
	for _, g := range bookGroups {
		for _, k := range g.fns {
			if k == key {
				return true
			}
		}
	}
	return false
}

// callee renders the function position of an application
func (info *bookFnInfo) callee() string {
	if info.inline != "" {
		return info.inline
	}
	return info.leanName
}

func (b *book) findDecl(key bookFnKey) (*ast.FuncDecl, string) {
	for name, f := range b.p.files {
		for _, d := range f.Decls {
			fd, ok := d.(*ast.FuncDecl)
			if !ok || fd.Name.Name != key.name || fd.Body == nil {
				continue
			}
			if key.recv == "" && fd.Recv == nil {
				return fd, name
			}
			if fd.Recv != nil && len(fd.Recv.List) == 1 && recvName(fd.Recv.List[0].Type) == key.recv {
				return fd, name
			}
		}
	}
	return nil, ""
}

// Functions of which only a tail is translated: the statements after the (first) top-level statement
// whose source text is `after`. The part before it is outside the translatable subset (e.g. surgery on a
// slice of shared pointers); the tail is bookkeeping over the state that part leaves behind.
type bookFragment struct{ after, suffix string }

var bookFragments = map[bookFnKey]bookFragment{
	{"observerManager", "RemoveObserver"}: {"m.totalCount--", "aggregates"},
	{"observerManager", "AddObserver"}:    {"m.totalCount++", "aggregates"},
}

// fragmentPrelude: the tail of a function may use locals the head defined.  A definition `x := p.f.g`
// (a field path) at the top level of the head is carried into the tail when the tail mentions `x`, `x`
// is defined once and never assigned again, and no statement of the head after it assigns to a field
// named like the last field of the path (which rules out a change of the value through an alias).
func fragmentPrelude(head, tail []ast.Stmt) []*ast.AssignStmt {
	used := map[string]bool{}
	for _, st := range tail {
		ast.Inspect(st, func(n ast.Node) bool {
			if id, ok := n.(*ast.Ident); ok {
				used[id.Name] = true
			}
			return true
		})
	}
	isPath := func(e ast.Expr) bool {
		for {
			switch x := e.(type) {
			case *ast.SelectorExpr:
				e = x.X
			case *ast.Ident:
				return true
			default:
				return false
			}
		}
	}
	var out []*ast.AssignStmt
	for i, st := range head {
		as, ok := st.(*ast.AssignStmt)
		if !ok || as.Tok != token.DEFINE || len(as.Lhs) != 1 || len(as.Rhs) != 1 {
			continue
		}
		id, ok := as.Lhs[0].(*ast.Ident)
		sel, ok2 := as.Rhs[0].(*ast.SelectorExpr)
		if !ok || !ok2 || !used[id.Name] || !isPath(sel) {
			continue
		}
		clean := true
		for _, later := range head[i+1:] {
			ast.Inspect(later, func(n ast.Node) bool {
				var lhs []ast.Expr
				switch x := n.(type) {
				case *ast.AssignStmt:
					lhs = x.Lhs
				case *ast.IncDecStmt:
					lhs = []ast.Expr{x.X}
				}
				for _, l := range lhs {
					if src(l) == id.Name {
						clean = false
					}
					if ls, ok := l.(*ast.SelectorExpr); ok && ls.Sel.Name == sel.Sel.Name {
						clean = false
					}
				}
				return true
			})
		}
		if clean {
			out = append(out, as)
		}
	}
	return out
}

var leanKeywords = map[string]bool{"by": true, "at": true, "do": true, "fun": true, "end": true, "from": true, "have": true,
	"show": true, "then": true, "in": true, "let": true, "match": true, "open": true, "with": true, "where": true,
	"theorem": true, "def": true, "instance": true, "structure": true, "namespace": true, "section": true, "variable": true,
	"example": true, "axiom": true, "deriving": true, "mutual": true, "export": true, "private": true, "protected": true,
	"partial": true, "macro": true, "syntax": true, "notation": true, "local": true, "using": true,
	"this": true, "Type": true, "Prop": true, "Sort": true, "universe": true, "calc": true, "suffices": true, "obtain": true,
	"exists": true, "forall": true, "extends": true, "class": true, "inductive": true, "abbrev": true, "opaque": true,
	"attribute": true, "termination_by": true, "decreasing_by": true, "nomatch": true, "nofun": true, "set_option": true}

// mentionsOwn: does the signature of the function mention a struct the current group renders itself?
func (b *book) mentionsOwn(fd *ast.FuncDecl) bool {
	if b.cur == nil || len(b.cur.own) == 0 {
		return false
	}
	found := false
	look := func(fl *ast.FieldList) {
		if fl == nil {
			return
		}
		for _, f := range fl.List {
			ast.Inspect(f.Type, func(n ast.Node) bool {
				if id, ok := n.(*ast.Ident); ok {
					if _, own := b.cur.own[id.Name]; own {
						found = true
					}
				}
				return true
			})
		}
	}
	look(fd.Recv)
	look(fd.Type.Params)
	look(fd.Type.Results)
	return found
}

func (b *book) translate(key bookFnKey) *bookFnInfo {
	fd, file := b.findDecl(key)
	ckey := fnCacheKey{key, ""}
	if fd != nil && b.mentionsOwn(fd) {
		ckey.variant = b.cur.file
	}
	if info, ok := b.fns[ckey]; ok {
		return info
	}
	if b.stack[key] {
		problem("recursive call of %s.%s", key.recv, key.name)
		return nil
	}
	if fd == nil {
		problem("function %s.%s not found", key.recv, key.name)
		return nil
	}
	b.stack[key] = true
	defer delete(b.stack, key)
	// Go identifiers that are Lean keywords get a trailing underscore
	ast.Inspect(fd, func(n ast.Node) bool {
		if id, ok := n.(*ast.Ident); ok && leanKeywords[id.Name] {
			id.Name += "_"
		}
		return true
	})

	info := &bookFnInfo{recvTy: key.recv}
	if key.recv != "" {
		info.leanName = key.recv + "_" + key.name
	} else {
		info.leanName = key.name
	}
	b.files[key] = file
	bodyStmts := fd.Body.List
	var prelude []*ast.AssignStmt
	if fr, ok := bookFragments[key]; ok {
		info.leanName += "_" + fr.suffix
		at := -1
		for i, st := range bodyStmts {
			if strings.TrimSpace(src(st)) == fr.after {
				at = i
				break
			}
		}
		if at < 0 {
			problem("%s.%s: the statement `%s` after which the translated tail starts was not found", key.recv, key.name, fr.after)
			bodyStmts = nil
		} else {
			prelude = fragmentPrelude(bodyStmts[:at+1], bodyStmts[at+1:])
			bodyStmts = bodyStmts[at+1:]
		}
	}
	info.exc = b.cur != nil && b.cur.panicMsgs
	c := &bctx{b: b, where: file + ":" + info.leanName, vars: map[string]*bvar{}, mutated: map[string]bool{},
		assigned: map[string]bool{}, info: info, exc: info.exc}
	nprob := len(problems)

	tparams := map[string]bool{}
	var paramDecls []string
	if fd.Recv != nil {
		r := fd.Recv.List[0]
		c.recv = "_recv"
		if len(r.Names) == 1 {
			c.recv = r.Names[0].Name
		}
		// generic receiver: type parameters are integers
		if ix, ok := r.Type.(*ast.StarExpr); ok {
			if ie, ok := ix.X.(*ast.IndexExpr); ok {
				if id, ok := ie.Index.(*ast.Ident); ok {
					tparams[id.Name] = true
					b.intTypes[id.Name] = true
					defer delete(b.intTypes, id.Name)
				}
			}
		}
		c.vars[c.recv] = &bvar{ty: &gty{kind: "named", name: key.recv}, root: true}
		paramDecls = append(paramDecls, "("+c.recv+" : "+b.leanStruct(key.recv)+")")
	}
	if fd.Type.TypeParams != nil {
		for _, tp := range fd.Type.TypeParams.List {
			for _, n := range tp.Names {
				tparams[n.Name] = true
			}
		}
	}
	var ptrParams []string
	for _, pl := range fd.Type.Params.List {
		ty := b.goType(pl.Type, tparams)
		for _, n := range pl.Names {
			info.params = append(info.params, gfield{n.Name, ty})
			c.vars[n.Name] = &bvar{ty: ty, root: ty.kind == "ptr"}
			if ty.kind == "ptr" {
				ptrParams = append(ptrParams, n.Name)
			}
			paramDecls = append(paramDecls, "("+n.Name+" : "+b.leanType(ty)+")")
		}
	}
	if fd.Type.Results != nil {
		// a pointer result is `Option` when the function returns a literal `nil` in its position
		nilAt := map[int]bool{}
		ast.Inspect(fd.Body, func(n ast.Node) bool {
			switch x := n.(type) {
			case *ast.FuncLit:
				return false
			case *ast.ReturnStmt:
				for i, r := range x.Results {
					if id, ok := r.(*ast.Ident); ok && id.Name == "nil" {
						nilAt[i] = true
					}
				}
			}
			return true
		})
		resType := func(i int, e ast.Expr) *gty {
			t := b.goType(e, tparams)
			if t.kind == "ptr" && nilAt[i] {
				t = &gty{kind: "ptr", elem: t.elem, nilable: true}
			}
			return t
		}
		pos := 0
		for _, r := range fd.Type.Results.List {
			n := len(r.Names)
			if n == 0 {
				n = 1
			}
			for j := 0; j < n; j++ {
				info.retParts = append(info.retParts, resType(pos, r.Type))
				pos++
			}
		}
		if len(fd.Type.Results.List) != 1 || len(fd.Type.Results.List[0].Names) > 1 {
			// several results: a tuple
			var parts []*gty
			for i, r := range fd.Type.Results.List {
				parts = append(parts, resType(i, r.Type))
			}
			info.ret = &gty{kind: "tuple", name: ""}
			info.ret.elem = nil
			c.retTy = info.ret
			_ = parts
			// rendered below from the parts
			info.ret = &gty{kind: "named", name: "*tuple*"}
			var ls []string
			for _, p := range parts {
				ls = append(ls, b.leanType(p))
			}
			info.ret.name = strings.Join(ls, " × ")
		} else {
			info.ret = resType(0, fd.Type.Results.List[0].Type)
		}
	}

	// The shape of the result is only known after the body was translated (which variables are
	// mutated): translate with placeholders and patch.
	var body strings.Builder
	k := bcont{fall: "RESULT⟦⟧", ret: func(vals []string) string { return "RESULT⟦" + strings.Join(vals, " ;; ") + "⟧" },
		pan: c.panText,
		after: func(rv, ind string) string {
			r := c.fresh("r")
			return "match " + rv + " with\n" + ind + "| some " + r + " => " + r + "\n" + ind + "| none =>"
		}}
	for _, st := range prelude {
		c.define(st.Lhs[0].(*ast.Ident).Name, st.Rhs[0], &body, "  ")
	}
	c.block(bodyStmts, k, &body, "  ")

	info.mutRecv = c.recv != "" && c.mutated[c.recv]
	for _, pp := range ptrParams {
		if c.mutated[pp] {
			info.ptrParams = append(info.ptrParams, pp)
		}
	}
	info.mayPanic = c.mayPanic

	// result type
	var resParts []string
	var stateVars []string
	if info.mutRecv {
		resParts = append(resParts, b.leanStruct(key.recv))
		stateVars = append(stateVars, c.recv)
	}
	for _, pp := range info.ptrParams {
		resParts = append(resParts, b.leanType(c.vars[pp].ty))
		stateVars = append(stateVars, pp)
	}
	if info.ret != nil {
		if info.ret.kind == "named" && strings.Contains(info.ret.name, "×") {
			resParts = append(resParts, info.ret.name)
		} else {
			resParts = append(resParts, b.leanType(info.ret))
		}
	}
	resTy := "Unit"
	if len(resParts) > 0 {
		resTy = strings.Join(resParts, " × ")
	}
	if info.mayPanic {
		if info.exc {
			resTy = "GoRes (" + resTy + ")"
		} else {
			resTy = "Option (" + resTy + ")"
		}
	}
	text := body.String()
	// patch RESULT⟦...⟧, RESTYPE⟦⟧ and TAILCALL[...]
	text = patchResults(text, stateVars, info.mayPanic, info.exc)
	text = strings.ReplaceAll(text, "RESTYPE⟦⟧", resTy)
	under := ""
	if len(c.under) > 0 {
		under = "/- truncated subtractions (no underflow assumed): " + strings.Join(c.under, " | ") + " -/\n"
	}
	info.text = fmt.Sprintf("/-- `%s` (%s) -/\n%sdef %s %s : %s :=\n%s\n", strings.TrimSpace(strings.ReplaceAll(key.recv+"."+key.name, "..", ".")), file, under,
		info.leanName, strings.Join(paramDecls, " "), resTy, text)
	// a function that is not one of the configured translation targets (a helper the source introduced)
	// is inlined at its call sites as a β-redex, so that the generated definitions of the targets do
	// not depend on how the source factors its code
	if !b.isTarget(key) {
		info.inline = "(fun " + strings.Join(paramDecls, " ") + " =>\n" + strings.TrimRight(text, "\n") + ")"
	}
	info.ok = len(problems) == nprob
	b.counter++
	info.order = b.counter
	b.fns[ckey] = info
	return info
}

func patchResults(text string, stateVars []string, mayPanic, exc bool) string {
	okCtor := "some "
	if exc {
		okCtor = ".ok "
	}
	var out strings.Builder
	for {
		i := strings.Index(text, "RESULT⟦")
		j := strings.Index(text, "TAILCALL[")
		if i < 0 && j < 0 {
			out.WriteString(text)
			break
		}
		if j >= 0 && (i < 0 || j < i) {
			out.WriteString(text[:j])
			rest := text[j+len("TAILCALL["):]
			e := strings.Index(rest, "]")
			calleePanics := rest[:e] == "true"
			rest = rest[e+1:]
			nl := strings.Index(rest, "\n")
			app := rest[:nl]
			if mayPanic && !calleePanics {
				out.WriteString(okCtor + app)
			} else {
				out.WriteString(app)
			}
			text = rest[nl:]
			continue
		}
		out.WriteString(text[:i])
		rest := text[i+len("RESULT⟦"):]
		e := strings.Index(rest, "⟧")
		vals := rest[:e]
		var parts []string
		parts = append(parts, stateVars...)
		if vals != "" {
			for _, v := range strings.Split(vals, " ;; ") {
				parts = append(parts, v)
			}
		}
		r := tupleOf(parts)
		if mayPanic {
			r = okCtor + r
		}
		out.WriteString(r)
		text = rest[e+len("⟧"):]
	}
	return out.String()
}

// ---------------------------------------------------------------------------------------------
// output
// ---------------------------------------------------------------------------------------------

type bookGroup struct {
	file  string // generated Lean file name (without extension)
	doc   string
	fns   []bookFnKey
	extra string // further imports
	// Go structs this group renders as structures of its own (Go name -> Lean name), with the fields the
	// functions of THIS group use (plus `ownFields`), so that the structures of the earlier files do not change
	own       map[string]string
	ownFields map[string][]string
	panicMsgs bool // panics carry their message: the result type is `GoRes R` instead of `Option R`
}

// the fixed prelude of a group with `panicMsgs`
const goResPrelude = `/-- a Go panic: the message (for ` + "`panic(fmt.Sprintf(f, a…))`" + ` the format string ` + "`f`" + `) and the integer arguments -/
structure GoPanic where
  msg : String
  args : (List Nat) := []
  deriving Repr, Inhabited, DecidableEq

/-- result of a function that may panic, with the panic's message -/
inductive GoRes (α : Type) where
  | ok : α → GoRes α
  | panic : GoPanic → GoRes α
  deriving Repr, DecidableEq

`

var bookGroups = []bookGroup{
	{file: "BookTableIDs", doc: "tableIDs of archetype.go", fns: []bookFnKey{
		{"", "newTableIDs"}, {"tableIDs", "Append"}, {"tableIDs", "Remove"}, {"tableIDs", "Clear"}}, extra: ""},
	{file: "BookArchetype", doc: "relation-index bookkeeping of archetype.go", fns: []bookFnKey{
		{"archetype", "HasRelations"}, {"archetype", "GetFreeTable"}, {"archetype", "FreeTable"},
		{"archetype", "removeTableRelations"}, {"archetype", "FreeAllTables"}, {"archetype", "AddTable"}, {"archetype", "RemoveTarget"}, {"archetype", "GetTables"}}, extra: ""},
	{file: "BookPool", doc: "entityPool, bitPool, intPool of pool.go", fns: []bookFnKey{
		{"entityPool", "getNew"}, {"entityPool", "Get"}, {"entityPool", "Recycle"}, {"entityPool", "Reset"},
		{"entityPool", "Len"}, {"entityPool", "Cap"},
		{"bitPool", "getNew"}, {"bitPool", "Get"}, {"bitPool", "Recycle"}, {"bitPool", "Reset"},
		{"intPool", "Recycle"}, {"intPool", "Reset"}}, extra: ""},
	{file: "BookCache", doc: "filter cache bookkeeping of cache.go", fns: []bookFnKey{
		{"cache", "getEntry"}, {"cache", "unregister"}, {"cache", "removeTable"}, {"cache", "Reset"}}, extra: ""},
	{file: "BookLock", doc: "lock.go over the translated bit pool and the word-level mask (mutex calls erased: sequential semantics)", fns: []bookFnKey{
		{"", "newBitPool"}, {"", "newLock"}, {"lock", "Lock"}, {"lock", "Unlock"}, {"lock", "LockSafe"}, {"lock", "UnlockSafe"},
		{"lock", "IsLocked"}, {"lock", "Reset"}}, extra: "import Ark.Generated.Words"},
	{file: "BookObservers", doc: "events.go: the per-event aggregates (union masks, wildcard flags) that RemoveObserver recomputes — the tail of the function after the observer list was edited", fns: []bookFnKey{
		{"observerManager", "RemoveObserver"}, {"observerManager", "AddObserver"}}, extra: "import Ark.Generated.Words"},
	{file: "BookTableCaps", doc: "table.go: the capacity decisions of Extend / Shrink / CanShrink (adjustCapacity modelled as `cap := c`)", fns: []bookFnKey{
		{"table", "Extend"}, {"table", "Shrink"}, {"table", "CanShrink"}}, extra: "import Ark.Model.Table"},
	{file: "BookStats", doc: "the incremental statistics of archetype.go / table.go (archetype.UpdateStats over the re-used stats.Archetype)", fns: []bookFnKey{
		{"table", "Stats"}, {"table", "UpdateStats"}, {"archetype", "UpdateStats"}}, extra: ""},
	// the table lookup. `table` and `storage` are rendered as structures of this file (`components`,
	// `relationIDs` are read only here; `id` is kept so that the returned table can be identified);
	// panics carry their messages
	{file: "BookLookup", doc: "the exact table lookup of archetype.go / table.go (GetTable, getTableSlowPath, MatchesExact, Matches); panics carry their message (`GoRes`), `table.components []*column` is `List (Option G_column)` (nil = no such column), a returned `*table` is the value of the table (`some`; `none` = nil), `uint8(len(relations))` is `length % 256`, `componentsMap []int16` is `List Nat` as in BookArchetype (-1, no column, is not representable: the bridge theorem excludes that Go runtime panic)",
		fns: []bookFnKey{{"table", "MatchesExact"}, {"table", "Matches"}, {"archetype", "getTableSlowPath"}, {"archetype", "GetTable"}},
		own: map[string]string{"table": "G_table_L", "storage": "G_storage_L"}, ownFields: map[string][]string{"table": {"id"}},
		panicMsgs: true},
}

func genBook(p *pkgFiles, statsPkg *pkgFiles, files map[string]string) {
	b := newBook(p)
	b.addPackageStructs("stats", statsPkg)
	owner := map[fnCacheKey]string{} // function -> generated file that defines it
	emittedStructs := map[string]bool{}
	var prevFiles []string
	// phase 1: translate everything (the generated structures list the fields ALL translated functions use)
	groupNotes := map[string]string{}
	groupOf := map[fnCacheKey]int{}
	for gi, g := range bookGroups {
		b.cur = &bookGroups[gi]
		var notes strings.Builder
		before := map[fnCacheKey]bool{}
		for k := range b.fns {
			before[k] = true
		}
		for _, key := range g.fns {
			key := key
			fragment(&notes, "book:"+key.recv+"."+key.name, func(o *strings.Builder) {
				b.translate(key)
			})
		}
		for k := range b.fns {
			if !before[k] {
				groupOf[k] = gi
			}
		}
		groupNotes[g.file] = notes.String()
	}
	// phase 2: one file per group
	for gi, g := range bookGroups {
		b.cur = &bookGroups[gi]
		var out strings.Builder
		notes := groupNotes[g.file]
		// the functions this file defines: everything translated so far that no earlier file owns
		var defs []*bookFnInfo
		var keys []fnCacheKey
		for k := range b.fns {
			keys = append(keys, k)
		}
		sort.Slice(keys, func(i, j int) bool { return b.fns[keys[i]].order < b.fns[keys[j]].order })
		for _, k := range keys {
			if _, done := owner[k]; done || !b.fns[k].ok || b.fns[k].inline != "" || groupOf[k] != gi {
				continue
			}
			owner[k] = g.file
			defs = append(defs, b.fns[k])
		}
		imports := "import Ark.Basic\nimport Ark.Model.Pool\nimport Ark.Model.Archetype"
		for _, pf := range prevFiles {
			imports += "\nimport Ark.Generated." + pf
		}
		if g.extra != "" {
			imports += "\n" + g.extra
		}
		out.WriteString(genHeader("T1 (bookkeeping level): "+g.doc+", translated statement by statement; regenerated on every run.", imports))
		out.WriteString("namespace Book\n\n")
		if g.panicMsgs {
			out.WriteString(goResPrelude)
		}
		out.WriteString(notes)
		// structures referenced by the signatures of this file's functions (and, transitively, by their fields)
		var emit func(name string)
		emit = func(name string) {
			_, isOwn := g.own[name]
			if emittedStructs[b.leanStruct(name)] || (bookExternal[name] != "" && !isOwn) {
				return
			}
			gs, ok := b.gstructOf(name)
			if !ok {
				return
			}
			emittedStructs[b.leanStruct(name)] = true
			var lines []string
			var dep func(t *gty)
			dep = func(t *gty) {
				if t == nil {
					return
				}
				if t.kind == "named" {
					emit(t.name)
				}
				dep(t.elem)
			}
			var collect func(s *gstruct)
			collect = func(s *gstruct) {
				for _, fl := range s.fields {
					if fl.name == "*embedded*" {
						if is, ok := b.gstructOf(fl.ty.deref().name); ok {
							collect(is)
						}
						continue
					}
					if (s == gs && !s.used[fl.name]) || (s != gs && !gs.used["^"+fl.name]) {
						continue
					}
					dep(fl.ty)
					lines = append(lines, fmt.Sprintf("  %s : %s%s", fl.name, b.leanType(fl.ty), b.fieldDefault(fl.ty)))
				}
			}
			collect(gs)
			deriving := "Repr, Inhabited, DecidableEq"
			if strings.Contains(strings.Join(lines, " "), "M64") || strings.Contains(strings.Join(lines, " "), "M256") {
				deriving = "DecidableEq"
			}
			fmt.Fprintf(&out, "/-- Go `%s` (the fields used by the translated functions) -/\nstructure %s where\n%s  deriving %s\n\n",
				name, b.leanStruct(name), strings.Join(append(lines, ""), "\n"), deriving)
			if deriving == "DecidableEq" {
				allDefault := true
				for _, l := range lines {
					if !strings.Contains(l, ":=") {
						allDefault = false
					}
				}
				if allDefault { // Go's zero value
					fmt.Fprintf(&out, "instance : Inhabited %s := ⟨{}⟩\n\n", b.leanStruct(name))
				}
			}
		}
		var need func(t *gty)
		need = func(t *gty) {
			if t == nil {
				return
			}
			if t.kind == "named" && !strings.Contains(t.name, "×") {
				emit(t.name)
			}
			need(t.elem)
		}
		for _, d := range defs {
			if d.recvTy != "" {
				emit(d.recvTy)
			}
			for _, pr := range d.params {
				need(pr.ty)
			}
			need(d.ret)
		}
		for _, d := range defs {
			out.WriteString(d.text)
			out.WriteString("\n")
		}
		out.WriteString("end Book\n\nend Ark.Generated\n")
		files[g.file] = out.String()
		prevFiles = append(prevFiles, g.file)
	}
	b.cur = nil
}
