package main

import (
	"bytes"
	"fmt"
	"go/ast"
	"go/printer"
	"go/token"
	"strings"
)

// ---------------------------------------------------------------------------------------------
// T1: expression translator for ark's decision logic
// ---------------------------------------------------------------------------------------------

func src(n ast.Node) string {
	var b bytes.Buffer
	printer.Fprint(&b, fset, n)
	return b.String()
}

// trBool translates a Go boolean expression over masks and flags into a Lean Bool expression.
// env maps the source text of leaf expressions to Lean identifiers.
func trBool(e ast.Expr, env map[string]string, where string) string {
	switch x := e.(type) {
	case *ast.ParenExpr:
		return "(" + trBool(x.X, env, where) + ")"
	case *ast.UnaryExpr:
		if x.Op == token.NOT {
			return "(!" + trBool(x.X, env, where) + ")"
		}
		if x.Op == token.AND {
			return trBool(x.X, env, where)
		}
	case *ast.BinaryExpr:
		switch x.Op {
		case token.LAND:
			return "(" + trBool(x.X, env, where) + " && " + trBool(x.Y, env, where) + ")"
		case token.LOR:
			return "(" + trBool(x.X, env, where) + " || " + trBool(x.Y, env, where) + ")"
		}
	case *ast.CallExpr:
		if sel, ok := x.Fun.(*ast.SelectorExpr); ok && len(x.Args) == 1 {
			recv := trBool(sel.X, env, where)
			arg := trBool(x.Args[0], env, where)
			switch sel.Sel.Name {
			case "Contains":
				return "(Mask.contains " + recv + " " + arg + ")"
			case "ContainsAny":
				return "(Mask.containsAny " + recv + " " + arg + ")"
			}
		}
	case *ast.Ident, *ast.SelectorExpr, *ast.IndexExpr:
		if v, ok := env[src(e)]; ok {
			return v
		}
	}
	problem("%s: expression outside the translated subset: %s", where, src(e))
	return "false"
}

type fireSpec struct {
	goName   string // Go function name
	leanName string
	evtIndex string   // expected index into the per-event arrays: param name or constant
	masks    []string // mask parameter names, in order
	hasEarly bool     // has an earlyOut parameter
	found    bool     // returns found
}

var fireSpecs = []fireSpec{
	{"FireCreateEntity", "fireCreateEntity", "OnCreateEntity", []string{"mask"}, true, true},
	{"FireCreateEntityRel", "fireCreateEntityRel", "OnAddRelations", []string{"mask"}, true, true},
	{"FireRemoveEntity", "fireRemoveEntity", "OnRemoveEntity", []string{"mask"}, true, true},
	{"FireRemoveEntityRel", "fireRemoveEntityRel", "OnRemoveRelations", []string{"mask"}, true, true},
	{"FireAdd", "fireAdd", "evt", []string{"oldMask", "newMask"}, true, true},
	{"FireRemove", "fireRemove", "evt", []string{"oldMask", "newMask"}, true, true},
	{"FireSet", "fireSet", "OnSetComponents", []string{"mask", "newMask"}, false, false},
	{"FireSetRelations", "fireSetRelations", "evt", []string{"mask", "newMask"}, true, true},
	{"FireCustom", "fireCustom", "evt", []string{"mask", "entityMask"}, false, false},
}

// returnsFalseOrNothing reports whether the block is `{ return false }` or `{ return }`.
func isEarlyReturn(b *ast.BlockStmt) bool {
	if len(b.List) != 1 {
		return false
	}
	r, ok := b.List[0].(*ast.ReturnStmt)
	if !ok {
		return false
	}
	if len(r.Results) == 0 {
		return true
	}
	if id, ok := r.Results[0].(*ast.Ident); ok && id.Name == "false" && len(r.Results) == 1 {
		return true
	}
	return false
}

func isContinue(b *ast.BlockStmt) bool {
	if len(b.List) != 1 {
		return false
	}
	br, ok := b.List[0].(*ast.BranchStmt)
	return ok && br.Tok == token.CONTINUE
}

func genFire(p *pkgFiles, fs fireSpec, out *strings.Builder) {
	where := "events.go:" + fs.goName
	fd := p.findFunc("events.go", "observerManager", fs.goName)
	if fd == nil || fd.Body == nil {
		problem("%s: function not found", where)
		return
	}
	paramsOf := func(fd *ast.FuncDecl) []string {
		var ps []string
		for _, f := range fd.Type.Params.List {
			for _, n := range f.Names {
				ps = append(ps, n.Name)
			}
		}
		return ps
	}
	// the event index and the mask parameters as they are called in the function that holds the logic
	evtIndex := fs.evtIndex
	maskName := map[string]string{}
	for _, mk := range fs.masks {
		maskName[mk] = mk
	}
	earlyName := "earlyOut"
	// a function that only forwards to a helper of the manager (`return m.helper(X, args…)`, a common
	// refactoring when several Fire* functions share their body): the logic is the helper's, with
	// its parameters bound to the arguments
	for depth := 0; depth < 3 && len(fd.Body.List) == 1; depth++ {
		var call *ast.CallExpr
		switch st := fd.Body.List[0].(type) {
		case *ast.ReturnStmt:
			if len(st.Results) == 1 {
				call, _ = st.Results[0].(*ast.CallExpr)
			}
		case *ast.ExprStmt:
			call, _ = st.X.(*ast.CallExpr)
		}
		if call == nil {
			break
		}
		sel, ok := call.Fun.(*ast.SelectorExpr)
		if !ok || src(sel.X) != "m" {
			break
		}
		helper := p.findFunc("events.go", "observerManager", sel.Sel.Name)
		if helper == nil || helper.Body == nil {
			break
		}
		hp := paramsOf(helper)
		if len(hp) != len(call.Args) {
			problem("%s: forwards to %s with a different number of arguments", where, sel.Sel.Name)
			return
		}
		newMask := map[string]string{}
		newEvt := ""
		for i, a := range call.Args {
			as := strings.TrimPrefix(src(a), "&")
			if as == evtIndex {
				newEvt = hp[i]
			}
			for mk, cur := range maskName {
				if as == cur {
					newMask[mk] = hp[i]
				}
			}
			if as == earlyName {
				earlyName = hp[i]
			}
		}
		if newEvt == "" {
			// the helper may use the constant itself
			newEvt = evtIndex
		}
		if len(newMask) != len(maskName) {
			problem("%s: forwards to %s without passing all mask parameters", where, sel.Sel.Name)
			return
		}
		evtIndex, maskName, fd = newEvt, newMask, helper
	}
	// environment of leaves
	aggEnv := map[string]string{}
	for _, f := range []string{"anyNoComps", "anyNoWith", "allComps", "allWith"} {
		aggEnv["m."+f+"["+evtIndex+"]"] = f
	}
	for _, mk := range fs.masks {
		aggEnv[maskName[mk]] = mk
	}
	obsEnv := map[string]string{}
	for _, f := range []string{"hasComps", "hasWith", "hasWithout", "compsMask", "withMask", "withoutMask"} {
		obsEnv["o."+f] = f
	}
	for _, mk := range fs.masks {
		obsEnv[maskName[mk]] = mk
	}
	// check the parameter list
	params := paramsOf(fd)
	for _, mk := range fs.masks {
		found := false
		for _, pn := range params {
			if pn == maskName[mk] {
				found = true
			}
		}
		if !found {
			problem("%s: mask parameter %s not found (parameters: %v)", where, mk, params)
			return
		}
	}
	var early []string
	var skips []string
	var loop *ast.RangeStmt
	stmts := fd.Body.List
	i := 0
	// early-out section
	for ; i < len(stmts); i++ {
		ifs, ok := stmts[i].(*ast.IfStmt)
		if !ok {
			break
		}
		if fs.hasEarly {
			if id, ok := ifs.Cond.(*ast.Ident); ok && id.Name == earlyName && ifs.Else == nil {
				// if earlyOut { if C {return false} ... }
				for _, s := range ifs.Body.List {
					in, ok := s.(*ast.IfStmt)
					if !ok || in.Else != nil || in.Init != nil || !isEarlyReturn(in.Body) {
						problem("%s: unexpected statement in the earlyOut block: %s", where, src(s))
						return
					}
					early = append(early, trBool(in.Cond, aggEnv, where))
				}
				continue
			}
			// if earlyOut && C { return false }
			if be, ok := ifs.Cond.(*ast.BinaryExpr); ok && be.Op == token.LAND && ifs.Else == nil && isEarlyReturn(ifs.Body) {
				// strip the leading `earlyOut &&`
				conj := flattenAnd(be)
				if id, ok := conj[0].(*ast.Ident); ok && id.Name == earlyName {
					parts := []string{}
					for _, c := range conj[1:] {
						parts = append(parts, trBool(c, aggEnv, where))
					}
					early = append(early, "("+strings.Join(parts, " && ")+")")
					continue
				}
			}
			problem("%s: unexpected early-out statement: %s", where, src(ifs.Cond))
			return
		}
		// functions without earlyOut parameter: if C { return }
		if ifs.Else != nil || ifs.Init != nil || !isEarlyReturn(ifs.Body) {
			problem("%s: unexpected early-out statement: %s", where, src(ifs))
			return
		}
		early = append(early, trBool(ifs.Cond, aggEnv, where))
	}
	// observers := m.observers[X]; [found := false]; for _, o := range observers {...}; [return found]
	rest := stmts[i:]
	sawObservers := false
	for _, s := range rest {
		switch st := s.(type) {
		case *ast.AssignStmt:
			txt := src(st)
			if txt == "observers := m.observers["+evtIndex+"]" {
				sawObservers = true
			} else if txt == "found := false" {
			} else {
				problem("%s: unexpected statement: %s", where, txt)
			}
		case *ast.RangeStmt:
			loop = st
		case *ast.ReturnStmt:
			if fs.found && src(st) != "return found" {
				problem("%s: unexpected return: %s", where, src(st))
			}
		default:
			problem("%s: unexpected statement: %s", where, src(s))
		}
	}
	// `for _, o := range observers` after `observers := m.observers[X]`, or directly `range m.observers[X]`
	// (the range operand is evaluated once either way)
	direct := loop != nil && src(loop.X) == "m.observers["+evtIndex+"]"
	if loop == nil || !((sawObservers && src(loop.X) == "observers") || direct) || loop.Value == nil || src(loop.Value) != "o" {
		problem("%s: dispatch loop `for _, o := range observers` over m.observers[%s] not found", where, evtIndex)
		return
	}
	// loop body: zero or more `if C { continue }`, then o.callback(e), [found = true]
	body := loop.Body.List
	j := 0
	for ; j < len(body); j++ {
		ifs, ok := body[j].(*ast.IfStmt)
		if !ok {
			break
		}
		if ifs.Else != nil || ifs.Init != nil || !isContinue(ifs.Body) {
			problem("%s: unexpected statement in the dispatch loop: %s", where, src(ifs))
			return
		}
		skips = append(skips, trBool(ifs.Cond, obsEnv, where))
	}
	tail := []string{}
	for _, s := range body[j:] {
		tail = append(tail, src(s))
	}
	wantTail := []string{"o.callback(e)"}
	if fs.found {
		wantTail = append(wantTail, "found = true")
	}
	if strings.Join(tail, ";") != strings.Join(wantTail, ";") {
		problem("%s: dispatch loop tail is %q, expected %q", where, tail, wantTail)
		return
	}
	maskParams := ""
	for _, mk := range fs.masks {
		maskParams += " (" + mk + " : Mask)"
	}
	orJoin := func(xs []string) string {
		if len(xs) == 0 {
			return "false"
		}
		return strings.Join(xs, " ||\n    ")
	}
	fmt.Fprintf(out, "/-- early-out of `%s` (true = return without dispatching) -/\n", fs.goName)
	fmt.Fprintf(out, "def %s_early (anyNoComps anyNoWith : Bool) (allComps allWith : Mask)%s : Bool :=\n    %s\n\n", fs.leanName, maskParams, orJoin(early))
	fmt.Fprintf(out, "/-- per-observer skip condition of `%s` (true = `continue`, the callback does not run) -/\n", fs.goName)
	fmt.Fprintf(out, "def %s_skip (hasComps hasWith hasWithout : Bool) (compsMask withMask withoutMask : Mask)%s : Bool :=\n    %s\n\n", fs.leanName, maskParams, orJoin(skips))
}

func flattenAnd(e ast.Expr) []ast.Expr {
	if be, ok := e.(*ast.BinaryExpr); ok && be.Op == token.LAND {
		return append(flattenAnd(be.X), flattenAnd(be.Y)...)
	}
	return []ast.Expr{e}
}

// genIfHas checks the `Fire*IfHas` wrappers: `if !m.hasObservers[X] { return }; m.FireY(args..., true)`.
func genIfHas(p *pkgFiles, goName, evt, target string, out *strings.Builder) {
	where := "events.go:" + goName
	fd := p.findFunc("events.go", "observerManager", goName)
	if fd == nil || fd.Body == nil || len(fd.Body.List) != 2 {
		problem("%s: wrapper not found or not of the expected shape", where)
		return
	}
	ifs, ok := fd.Body.List[0].(*ast.IfStmt)
	if !ok || src(ifs.Cond) != "!m.hasObservers["+evt+"]" || !isEarlyReturn(ifs.Body) {
		problem("%s: first statement is not `if !m.hasObservers[%s] { return }`", where, evt)
		return
	}
	call := src(fd.Body.List[1])
	if !strings.HasPrefix(call, "m."+target+"(") || !strings.HasSuffix(call, ", true)") {
		problem("%s: does not delegate to %s(..., true): %s", where, target, call)
		return
	}
	name := strings.ToLower(goName[:1]) + goName[1:]
	fmt.Fprintf(out, "/-- `%s` is `if !m.hasObservers[%s] { return }; m.%s(…, true)` (shape checked by the extractor) -/\ndef %s_wrapper : Unit := ()\n\n", goName, evt, target, name)
}

// trNat translates an integer expression to a Lean Nat expression, tracking uint8 arithmetic.
// Returns the Lean text and whether the Go type is uint8 (EventType).
func trNat(e ast.Expr, u8 map[string]string, ints map[string]string, where string) (string, bool) {
	switch x := e.(type) {
	case *ast.ParenExpr:
		s, t := trNat(x.X, u8, ints, where)
		return "(" + s + ")", t
	case *ast.BasicLit:
		return x.Value, false
	case *ast.CallExpr:
		if id, ok := x.Fun.(*ast.Ident); ok && len(x.Args) == 1 {
			switch id.Name {
			case "int", "int32", "int64", "uint32", "uint64", "uint":
				s, _ := trNat(x.Args[0], u8, ints, where)
				return s, false
			case "uint8", "EventType":
				s, _ := trNat(x.Args[0], u8, ints, where)
				return "(" + s + " % 256)", true
			}
		}
	case *ast.BinaryExpr:
		a, ta := trNat(x.X, u8, ints, where)
		b, tb := trNat(x.Y, u8, ints, where)
		_, la := x.X.(*ast.BasicLit)
		_, lb := x.Y.(*ast.BasicLit)
		is8 := (ta && (tb || lb)) || (tb && la)
		var s string
		switch x.Op {
		case token.ADD:
			s = "(" + a + " + " + b + ")"
		case token.SUB:
			s = "(" + a + " - " + b + ")"
		case token.MUL:
			s = "(" + a + " * " + b + ")"
		case token.QUO:
			s = "(" + a + " / " + b + ")"
		case token.REM:
			s = "(" + a + " % " + b + ")"
		default:
			problem("%s: operator %s outside the translated subset", where, x.Op)
			return "0", false
		}
		if is8 {
			return "(" + s + " % 256)", true
		}
		return s, false
	default:
		t := src(e)
		if v, ok := u8[t]; ok {
			return v, true
		}
		if v, ok := ints[t]; ok {
			return v, false
		}
	}
	problem("%s: integer expression outside the translated subset: %s", where, src(e))
	return "0", false
}

func genObserverReset(p *pkgFiles, out *strings.Builder) {
	where := "events.go:observerManager.Reset"
	fd := p.findFunc("events.go", "observerManager", "Reset")
	if fd == nil {
		problem("%s: not found", where)
		return
	}
	var loop *ast.RangeStmt
	var boundE ast.Expr
	plusOne := false // `i <= b`: b + 1 iterations (in the type of the comparison, which is int here)
	for _, s := range fd.Body.List {
		if r, ok := s.(*ast.RangeStmt); ok && r.Key != nil {
			loop = r
			boundE = r.X
		}
		// the classic form `for i := 0; i < <bound>; i++` visits the same indices; the bound must not
		// mention the loop variable
		if f, ok := s.(*ast.ForStmt); ok && f.Init != nil && f.Cond != nil && f.Post != nil {
			init, ok1 := f.Init.(*ast.AssignStmt)
			cond, ok2 := f.Cond.(*ast.BinaryExpr)
			post, ok3 := f.Post.(*ast.IncDecStmt)
			if ok1 && ok2 && ok3 && init.Tok == token.DEFINE && len(init.Lhs) == 1 && len(init.Rhs) == 1 &&
				src(init.Rhs[0]) == "0" && (cond.Op == token.LSS || cond.Op == token.LEQ) && src(cond.X) == src(init.Lhs[0]) &&
				post.Tok == token.INC && src(post.X) == src(init.Lhs[0]) && !strings.Contains(src(cond.Y), src(init.Lhs[0])+" ") {
				boundE = cond.Y
				plusOne = cond.Op == token.LEQ
			}
		}
	}
	if boundE == nil {
		problem("%s: `for i := range <bound>` loop not found", where)
		return
	}
	_ = loop
	bound, is8 := trNat(boundE, map[string]string{"m.maxEventType": "maxEventType"}, nil, where)
	if plusOne {
		if is8 {
			// `i <= b` with b of type uint8 and i of type uint8 never terminates at b = 255: not translated
			problem("%s: loop `i <= <uint8 bound>`", where)
			return
		}
		bound = "(" + bound + " + 1)"
	}
	fmt.Fprintf(out, "/-- number of event types visited by the loop of `observerManager.Reset` (`range %s`) -/\n", src(boundE))
	fmt.Fprintf(out, "def observerReset_bound (maxEventType : Nat) : Nat := %s\n\n", bound)
}

func genFilterMatches(p *pkgFiles, out *strings.Builder) {
	where := "filter.go:filter.matches"
	fd := p.findFunc("filter.go", "filter", "matches")
	if fd == nil || len(fd.Body.List) == 0 {
		problem("%s: not found", where)
		return
	}
	env := map[string]string{"mask": "mask", "f.mask": "fmask", "f.without": "fwithout", "f.hasWithout": "hasWithout"}
	// `return E`, possibly preceded by guards `if C { return true|false }` (the early-return form of
	// the same condition): if C then v else …
	n := len(fd.Body.List)
	r, ok := fd.Body.List[n-1].(*ast.ReturnStmt)
	if !ok || len(r.Results) != 1 {
		problem("%s: does not end in a single return", where)
		return
	}
	text := trBool(r.Results[0], env, where)
	for i := n - 2; i >= 0; i-- {
		ifs, ok := fd.Body.List[i].(*ast.IfStmt)
		if !ok || ifs.Else != nil || ifs.Init != nil || len(ifs.Body.List) != 1 {
			problem("%s: unexpected statement: %s", where, src(fd.Body.List[i]))
			return
		}
		gr, ok := ifs.Body.List[0].(*ast.ReturnStmt)
		if !ok || len(gr.Results) != 1 || (src(gr.Results[0]) != "true" && src(gr.Results[0]) != "false") {
			problem("%s: guard does not return a boolean constant: %s", where, src(ifs))
			return
		}
		text = "(if " + trBool(ifs.Cond, env, where) + " then " + src(gr.Results[0]) + " else " + text + ")"
	}
	fmt.Fprintf(out, "/-- `filter.matches` -/\ndef filter_matches (fmask fwithout : Mask) (hasWithout : Bool) (mask : Mask) : Bool :=\n    %s\n\n", text)
}

// loopShape recognises `for v := range X` and `for v := 0; v < X; v++`: the loop variable, the bound
// and the body.
func loopShape(s ast.Stmt) (string, ast.Expr, *ast.BlockStmt, bool) {
	switch st := s.(type) {
	case *ast.RangeStmt:
		if st.Key != nil && st.Value == nil && st.Tok == token.DEFINE {
			return src(st.Key), st.X, st.Body, true
		}
	case *ast.ForStmt:
		init, ok1 := st.Init.(*ast.AssignStmt)
		cond, ok2 := st.Cond.(*ast.BinaryExpr)
		post, ok3 := st.Post.(*ast.IncDecStmt)
		if ok1 && ok2 && ok3 && init.Tok == token.DEFINE && len(init.Lhs) == 1 && len(init.Rhs) == 1 &&
			src(init.Rhs[0]) == "0" && cond.Op == token.LSS && src(cond.X) == src(init.Lhs[0]) &&
			post.Tok == token.INC && src(post.X) == src(init.Lhs[0]) {
			return src(init.Lhs[0]), cond.Y, st.Body, true
		}
	}
	return "", nil, nil, false
}

// genToTypes translates the index arithmetic of bitMask256.toTypes.  The roles are recognised by
// structure, not by name: the outer loop's bound (`bins`), the inner loop's bound (`cnt`) with its
// default and the one conditional re-assignment (`if COND { cnt = bits }`), and the `uint8(…)`
// conversion producing the component ID.
func genToTypes(p *pkgFiles, out *strings.Builder) {
	where := "mask256.go:bitMask256.toTypes"
	fd := p.findFunc("mask256.go", "bitMask256", "toTypes")
	if fd == nil {
		problem("%s: not found", where)
		return
	}
	// single assignments `x := e` at the top level of the function
	top := map[string]ast.Expr{}
	var outerVar string
	var outerBound ast.Expr
	var outerBody *ast.BlockStmt
	for _, s := range fd.Body.List {
		if st, ok := s.(*ast.AssignStmt); ok && st.Tok == token.DEFINE && len(st.Lhs) == 1 && len(st.Rhs) == 1 {
			top[src(st.Lhs[0])] = st.Rhs[0]
		}
		if v, bnd, body, ok := loopShape(s); ok && outerBody == nil {
			outerVar, outerBound, outerBody = v, bnd, body
		}
	}
	resolve := func(e ast.Expr) (string, ast.Expr) { // an identifier bound at the top → its definition
		if id, ok := e.(*ast.Ident); ok {
			if d, ok := top[id.Name]; ok {
				return id.Name, d
			}
		}
		return "", e
	}
	if outerBody == nil {
		problem("%s: expected an outer loop over the words in use", where)
		return
	}
	binsName, binsE := resolve(outerBound)
	// inner: cnt := DEFAULT; if COND { cnt = R }; for j := range cnt { … uint8(i*wordSize + j) …
	var innerVar string
	var innerBound ast.Expr
	var innerBody *ast.BlockStmt
	local := map[string]ast.Expr{}
	for _, s := range outerBody.List {
		if st, ok := s.(*ast.AssignStmt); ok && st.Tok == token.DEFINE && len(st.Lhs) == 1 && len(st.Rhs) == 1 {
			local[src(st.Lhs[0])] = st.Rhs[0]
		}
		if v, bnd, body, ok := loopShape(s); ok && innerBody == nil {
			innerVar, innerBound, innerBody = v, bnd, body
		}
	}
	if innerBody == nil {
		problem("%s: expected an inner loop over the bits of a word", where)
		return
	}
	cntName := src(innerBound)
	if d, ok := local[cntName]; !ok || src(d) != "wordSize" {
		problem("%s: expected `%s := wordSize` before the inner loop", where, cntName)
		return
	}
	var cntCond ast.Expr
	var bitsName string
	var bitsE ast.Expr
	for _, s := range outerBody.List {
		if st, ok := s.(*ast.IfStmt); ok && st.Else == nil && st.Init == nil && len(st.Body.List) == 1 {
			if as, ok := st.Body.List[0].(*ast.AssignStmt); ok && as.Tok == token.ASSIGN && len(as.Lhs) == 1 && src(as.Lhs[0]) == cntName {
				if cntCond != nil {
					problem("%s: `%s` is re-assigned more than once", where, cntName)
					return
				}
				cntCond = st.Cond
				bitsName, bitsE = resolve(as.Rhs[0])
			}
		}
	}
	if cntCond == nil || binsName == "" || bitsName == "" {
		problem("%s: expected `bins := …`, `bits := …`, `for i := range bins` and `if … { cnt = bits }`", where)
		return
	}
	var idExpr ast.Expr
	ast.Inspect(innerBody, func(n ast.Node) bool {
		if call, ok := n.(*ast.CallExpr); ok && src(call.Fun) == "uint8" && len(call.Args) == 1 {
			if idExpr != nil && src(idExpr) != src(call.Args[0]) {
				problem("%s: more than one `uint8(…)` conversion in the inner loop", where)
			}
			idExpr = call.Args[0]
		}
		return true
	})
	if idExpr == nil {
		problem("%s: expected `uint8(…)` in the inner loop", where)
		return
	}
	base := map[string]string{"totalIDs": "totalIDs", "wordSize": "64"}
	b1, _ := trNat(binsE, nil, base, where)
	b2, _ := trNat(bitsE, nil, base, where)
	fmt.Fprintf(out, "/-- `bins` of `toTypes`: number of 64-bit words scanned -/\ndef toTypes_bins (totalIDs : Nat) : Nat := %s\n\n", b1)
	fmt.Fprintf(out, "/-- `bits` of `toTypes` -/\ndef toTypes_bits (totalIDs : Nat) : Nat := %s\n\n", b2)
	ints := map[string]string{"totalIDs": "totalIDs", "wordSize": "64", outerVar: "i", binsName: "(toTypes_bins totalIDs)", bitsName: "(toTypes_bits totalIDs)"}
	cond := trCmp(cntCond, ints, where)
	idx, _ := trNat(idExpr, nil, map[string]string{outerVar: "i", innerVar: "j", "wordSize": "64"}, where)
	fmt.Fprintf(out, "/-- number of bits scanned in word `i` -/\ndef toTypes_cnt (totalIDs i : Nat) : Nat := if %s then toTypes_bits totalIDs else 64\n\n", cond)
	fmt.Fprintf(out, "/-- component ID produced for word `i`, bit `j` (before the `uint8` conversion) -/\ndef toTypes_id (i j : Nat) : Nat := %s\n\n", idx)
}

// trCmp translates comparisons/conjunctions over integers to a Lean Prop (decidable).
func trCmp(e ast.Expr, ints map[string]string, where string) string {
	switch x := e.(type) {
	case *ast.ParenExpr:
		return "(" + trCmp(x.X, ints, where) + ")"
	case *ast.BinaryExpr:
		switch x.Op {
		case token.LAND:
			return "(" + trCmp(x.X, ints, where) + " ∧ " + trCmp(x.Y, ints, where) + ")"
		case token.LOR:
			return "(" + trCmp(x.X, ints, where) + " ∨ " + trCmp(x.Y, ints, where) + ")"
		case token.EQL, token.NEQ, token.LSS, token.LEQ, token.GTR, token.GEQ:
			a, _ := trNat(x.X, nil, ints, where)
			b, _ := trNat(x.Y, nil, ints, where)
			op := map[token.Token]string{token.EQL: "=", token.NEQ: "≠", token.LSS: "<", token.LEQ: "≤", token.GTR: ">", token.GEQ: "≥"}[x.Op]
			return "(" + a + " " + op + " " + b + ")"
		}
	}
	problem("%s: condition outside the translated subset: %s", where, src(e))
	return "False"
}

func genHeader(what, imports string) string {
	return "/-\n  GENERATED by /verif/tools/extract from /repo/ecs — do not edit.\n  " + what + "\n-/\n" + imports + "\n\nnamespace Ark.Generated\nopen Ark\n\n"
}

func genLogic(p *pkgFiles, files map[string]string) {
	var out strings.Builder
	out.WriteString(genHeader("T1: observer firing conditions (events.go), regenerated on every run.", "import Ark.Model.Mask"))
	for _, fs := range fireSpecs {
		fs := fs
		fragment(&out, "events.go:"+fs.goName, func(o *strings.Builder) { genFire(p, fs, o) })
	}
	fragment(&out, "events.go:FireCreateEntityIfHas", func(o *strings.Builder) {
		genIfHas(p, "FireCreateEntityIfHas", "OnCreateEntity", "FireCreateEntity", o)
	})
	fragment(&out, "events.go:FireCreateEntityRelIfHas", func(o *strings.Builder) {
		genIfHas(p, "FireCreateEntityRelIfHas", "OnAddRelations", "FireCreateEntityRel", o)
	})
	fragment(&out, "events.go:FireAddIfHas", func(o *strings.Builder) { genIfHas(p, "FireAddIfHas", "evt", "FireAdd", o) })
	out.WriteString("end Ark.Generated\n")
	files["Obs"] = out.String()

	one := func(name, what, frag string, gen func(p *pkgFiles, out *strings.Builder)) {
		var out strings.Builder
		out.WriteString(genHeader(what, "import Ark.Model.Mask"))
		fragment(&out, frag, func(o *strings.Builder) { gen(p, o) })
		out.WriteString("end Ark.Generated\n")
		files[name] = out.String()
	}
	one("ObsReset", "T1: loop bound of observerManager.Reset.", "events.go:observerManager.Reset", genObserverReset)
	one("Filter", "T1: filter.matches.", "filter.go:filter.matches", genFilterMatches)
	one("ToTypes", "T1: the arithmetic of bitMask256.toTypes.", "mask256.go:toTypes", genToTypes)
	one("ShrinkBreak", "T1: when the first loop of storage.Shrink stops.", "storage.go:storage.Shrink", genShrinkBreak)
}

// genShrinkBreak translates the condition under which the shrinking loop of storage.Shrink stops early:
// the `if COND { break }` at the end of the body of its first loop.  `time.Since(start)` is the parameter
// `elapsed`, durations are natural numbers.
func genShrinkBreak(p *pkgFiles, out *strings.Builder) {
	where := "storage.go:storage.Shrink"
	fd := p.findFunc("storage.go", "storage", "Shrink")
	if fd == nil {
		problem("%s: not found", where)
		return
	}
	var cond ast.Expr
	for _, st := range fd.Body.List {
		var body *ast.BlockStmt
		switch l := st.(type) {
		case *ast.RangeStmt:
			body = l.Body
		case *ast.ForStmt:
			body = l.Body
		}
		if body == nil {
			continue
		}
		for _, bs := range body.List {
			if is, ok := bs.(*ast.IfStmt); ok && is.Else == nil && is.Init == nil && len(is.Body.List) == 1 {
				if br, ok := is.Body.List[0].(*ast.BranchStmt); ok && br.Tok == token.BREAK {
					if cond != nil {
						problem("%s: more than one early exit in the shrinking loop", where)
						return
					}
					cond = is.Cond
				}
			}
		}
		break // the first loop only
	}
	if cond == nil {
		problem("%s: expected `if … { break }` in the first loop", where)
		return
	}
	var tr func(e ast.Expr) string
	tr = func(e ast.Expr) string {
		switch x := e.(type) {
		case *ast.ParenExpr:
			return "(" + tr(x.X) + ")"
		case *ast.UnaryExpr:
			if x.Op == token.NOT {
				return "(!" + tr(x.X) + ")"
			}
		case *ast.Ident:
			if x.Name == "anyFound" {
				return "anyFound"
			}
		case *ast.BinaryExpr:
			switch x.Op {
			case token.LAND:
				return "(" + tr(x.X) + " && " + tr(x.Y) + ")"
			case token.LOR:
				return "(" + tr(x.X) + " || " + tr(x.Y) + ")"
			case token.EQL, token.NEQ, token.LSS, token.LEQ, token.GTR, token.GEQ:
				num := func(a ast.Expr) (string, bool) {
					switch src(a) {
					case "stopAfter":
						return "stopAfter", true
					case "time.Since(start)":
						return "elapsed", true
					case "0":
						return "0", true
					}
					return "", false
				}
				a, ok1 := num(x.X)
				b, ok2 := num(x.Y)
				if ok1 && ok2 {
					op := map[token.Token]string{token.EQL: "=", token.NEQ: "≠", token.LSS: "<", token.LEQ: "≤", token.GTR: ">", token.GEQ: "≥"}[x.Op]
					return "(decide (" + a + " " + op + " " + b + "))"
				}
			}
		}
		problem("%s: condition outside the translated subset: %s", where, src(e))
		return "false"
	}
	fmt.Fprintf(out, "/-- `storage.Shrink`: the shrinking loop stops after the current table iff this holds (`anyFound`: some table\n    so far had work; `stopAfter`: the time limit, 0 = stop after the first table with work; `elapsed`:\n    `time.Since(start)`) -/\ndef shrink_break (anyFound : Bool) (stopAfter elapsed : Nat) : Bool :=\n  %s\n\n", tr(cond))
}
