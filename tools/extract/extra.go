package main

import (
	"bytes"
	"fmt"
	"go/ast"
	"go/format"
	"os"
	"os/exec"
	"path/filepath"
	"regexp"
	"sort"
	"strings"
)

// genExtraFacts: arity wiring of the generated API (C14), template equality (C14), mutex
// regions of the filter types (C13), event order in the world operations (C09).
func letterIdx(s string) int { return int(s[0] - 'A') }

// wiring facts: every place where a type parameter letter, a storage/column letter and an ids
// index meet must use the same position.
func genWiring(p *pkgFiles, out *strings.Builder) {
	type row struct {
		what string
		ok   bool
	}
	var rows []row
	count := map[string]int{}
	bad := map[string][]string{}
	check := func(kind string, ok bool, detail string) {
		count[kind]++
		if !ok {
			bad[kind] = append(bad[kind], detail)
		}
	}
	pats := []struct {
		file, kind string
		re         *regexp.Regexp
		ok         func(m []string) bool
	}{
		// NewMapN / NewFilterN: storageX / components[i] wired to ids[i]
		{"maps_gen.go", "map.storage=ids[i]", regexp.MustCompile(`storage([A-L]):\s+&world\.storage\.components\[ids\[(\d+)\]\.id\]`),
			func(m []string) bool { return fmt.Sprint(letterIdx(m[1])) == m[2] }},
		{"filter_gen.go", "filter.components[i]=ids[i]", regexp.MustCompile(`components\[(\d+)\] = &world\.storage\.components\[ids\[(\d+)\]\.id\]`),
			func(m []string) bool { return m[1] == m[2] }},
		// Get / GetUnchecked: get[X](m.storageX, index)
		{"maps_gen.go", "map.Get", regexp.MustCompile(`get\[([A-L])\]\(m\.storage([A-L]), index\)`),
			func(m []string) bool { return m[1] == m[2] }},
		// callbacks of NewEntityFn/AddFn/Set: (*X)(m.storageX.columns[index.table].Get(row))
		{"maps_gen.go", "map.callback", regexp.MustCompile(`\(\*([A-L])\)\(m\.storage([A-L])\.columns\[index\.table\]\.Get\(row\)\)`),
			func(m []string) bool { return m[1] == m[2] }},
		// batch callbacks: columnX := m.storageX.columns[tableID]; (*X)(columnX.Get(index))
		{"maps_gen.go", "map.batchColumn", regexp.MustCompile(`column([A-L]) := m\.storage([A-L])\.columns\[tableID\]`),
			func(m []string) bool { return m[1] == m[2] }},
		{"maps_gen.go", "map.batchCallback", regexp.MustCompile(`\(\*([A-L])\)\(column([A-L])\.Get\(index\)\)`),
			func(m []string) bool { return m[1] == m[2] }},
		{"maps_gen.go", "map.HasAll", regexp.MustCompile(`m\.storage([A-L])\.columns\[table\] != nil`),
			func(m []string) bool { return true }},
		// queries: columnX := q.components[i].columns[...]; q.columnPtrX = columnX.pointer; Get
		{"query_gen.go", "query.column=components[i]", regexp.MustCompile(`column([A-L]) := q\.components\[(\d+)\]\.columns\[q\.table\.id\]`),
			func(m []string) bool { return fmt.Sprint(letterIdx(m[1])) == m[2] }},
		{"query_gen.go", "query.columnPtr", regexp.MustCompile(`q\.columnPtr([A-L]) = column([A-L])\.pointer`),
			func(m []string) bool { return m[1] == m[2] }},
		{"query_gen.go", "query.itemSize", regexp.MustCompile(`q\.itemSize([A-L]) = column([A-L])\.itemSize`),
			func(m []string) bool { return m[1] == m[2] }},
		{"query_nodebug_gen.go", "query.Get", regexp.MustCompile(`\(\*([A-L])\)\(unsafe\.Add\(q\.columnPtr([A-L]), index\*q\.itemSize([A-L])\)\)`),
			func(m []string) bool { return m[1] == m[2] && m[2] == m[3] }},
		{"query_debug_gen.go", "query.Get(debug)", regexp.MustCompile(`\(\*([A-L])\)\(unsafe\.Add\(q\.columnPtr([A-L]), index\*q\.itemSize([A-L])\)\)`),
			func(m []string) bool { return m[1] == m[2] && m[2] == m[3] }},
		// exchange: columnX := table.Column(ex.ids[i]); (*X)(columnX.Get(index)); runCallback
		{"exchange_gen.go", "exchange.column=ids[i]", regexp.MustCompile(`column([A-L]) := table\.Column\(ex\.ids\[(\d+)\]\)`),
			func(m []string) bool { return fmt.Sprint(letterIdx(m[1])) == m[2] }},
		{"exchange_gen.go", "exchange.batchCallback", regexp.MustCompile(`\(\*([A-L])\)\(column([A-L])\.Get\(index\)\)`),
			func(m []string) bool { return m[1] == m[2] }},
		{"exchange_gen.go", "exchange.runCallback", regexp.MustCompile(`\(\*([A-L])\)\(table\.Column\(ex\.ids\[(\d+)\]\)\.Get\(row\)\)`),
			func(m []string) bool { return fmt.Sprint(letterIdx(m[1])) == m[2] }},
	}
	for _, pt := range pats {
		src, ok := p.src[pt.file]
		if !ok {
			problem("%s: file not found", pt.file)
			continue
		}
		ms := pt.re.FindAllStringSubmatch(string(src), -1)
		for _, m := range ms {
			check(pt.kind, pt.ok(m), m[0])
		}
		if len(ms) == 0 {
			problem("%s: wiring pattern %q not found (generated code changed shape)", pt.file, pt.kind)
		}
	}
	// ordered tuples: within each Get()/callback argument list the letters must be A,B,C… in order
	orderRe := regexp.MustCompile(`(?s)func \((?:m|q|ex) \*(?:Map|Query|Exchange)(\d+)\[[^\]]*\]\) (Get|GetUnchecked)\([^)]*\)[^{]*\{(.*?)\n\}`)
	for _, file := range []string{"maps_gen.go", "query_nodebug_gen.go", "query_debug_gen.go"} {
		src := string(p.src[file])
		for _, m := range orderRe.FindAllStringSubmatch(src, -1) {
			letters := regexp.MustCompile(`\(\*([A-L])\)\(|get\[([A-L])\]`).FindAllStringSubmatch(m[3], -1)
			seq := ""
			for _, l := range letters {
				seq += l[1] + l[2]
			}
			want := "ABCDEFGHIJKL"[:len(seq)]
			check(file+":"+m[2]+".order", seq == want && fmt.Sprint(len(seq)) == m[1], "arity "+m[1]+": "+seq)
		}
	}
	// relation index -> ids[index] / components[index]
	relPats := []struct{ file, kind, text string }{
		{"maps_gen.go", "map.GetRelation=ids[index]", "return m.world.storage.getRelation(entity, m.ids[index])"},
		{"query_gen.go", "query.GetRelation=components[index]", "return q.components[index].columns[q.table.id].target"},
	}
	for _, rp := range relPats {
		n := strings.Count(string(p.src[rp.file]), rp.text)
		count[rp.kind] = n
		if n == 0 {
			problem("%s: relation index wiring %q not found", rp.file, rp.kind)
		}
	}
	var kinds []string
	for k := range count {
		kinds = append(kinds, k)
	}
	sort.Strings(kinds)
	for _, k := range kinds {
		rows = append(rows, row{fmt.Sprintf("%s (%d sites)", k, count[k]), len(bad[k]) == 0})
		for _, b := range bad[k] {
			rows = append(rows, row{"MISWIRED " + k + ": " + b, false})
		}
	}
	out.WriteString("/-- arity wiring of the generated API: every site where a type parameter, a component storage or\n    column and an ids index meet uses the same position; argument tuples are in parameter order -/\ndef arityWiring : List (String × Bool) := [\n")
	for i, r := range rows {
		sep := ","
		if i == len(rows)-1 {
			sep = ""
		}
		fmt.Fprintf(out, "  (%s, %s)%s\n", leanStr(r.what), leanBool(r.ok), sep)
	}
	out.WriteString("]\n\n")
	total := 0
	for _, k := range kinds {
		total += count[k]
	}
	fmt.Fprintf(out, "def arityWiringSites : Nat := %d\n\n", total)
}

// genTemplateEquality re-runs ecs/internal/generate on a scratch copy and compares the non-test
// generated files with the checked-in ones: when equal, every arity is an instance of one template.
func genTemplateEquality(repo string, out *strings.Builder) {
	tmp, err := os.MkdirTemp("", "arkgen")
	files := []string{"filter_gen.go", "query_gen.go", "query_debug_gen.go", "query_nodebug_gen.go", "maps_gen.go", "exchange_gen.go", "observers_gen.go"}
	res := map[string]bool{}
	note := ""
	if err == nil {
		defer os.RemoveAll(tmp)
		gen := filepath.Join(tmp, "ecs", "internal", "generate")
		os.MkdirAll(gen, 0o755)
		ents, _ := os.ReadDir(filepath.Join(repo, "ecs", "internal", "generate"))
		for _, e := range ents {
			b, _ := os.ReadFile(filepath.Join(repo, "ecs", "internal", "generate", e.Name()))
			os.WriteFile(filepath.Join(gen, e.Name()), b, 0o644)
		}
		os.WriteFile(filepath.Join(tmp, "go.mod"), []byte("module github.com/mlange-42/ark\n\ngo 1.24\n"), 0o644)
		cmd := exec.Command("go", "run", ".")
		cmd.Dir = gen
		cmd.Env = append(os.Environ(), "GOFLAGS=-mod=mod", "GOPROXY=off")
		if b, err := cmd.CombinedOutput(); err != nil {
			cmd2 := exec.Command("go1.26", "run", ".")
			cmd2.Dir = gen
			cmd2.Env = append(os.Environ(), "GOFLAGS=-mod=mod", "GOPROXY=off", "GOTOOLCHAIN=local")
			if b2, err2 := cmd2.CombinedOutput(); err2 != nil {
				note = "generator failed: " + strings.TrimSpace(string(b)+string(b2))
			}
		}
		for _, f := range files {
			a, _ := os.ReadFile(filepath.Join(tmp, "ecs", f))
			b, _ := os.ReadFile(filepath.Join(repo, "ecs", f))
			// the repository formats the generator's output with gofmt
			if fa, err := format.Source(a); err == nil {
				a = fa
			}
			res[f] = len(a) > 0 && bytes.Equal(a, b)
		}
	} else {
		note = err.Error()
	}
	out.WriteString("/-- each checked-in generated file equals the output of `ecs/internal/generate` run on the\n    templates now: every arity is an instance of one template -/\ndef templateMatches : List (String × Bool) := [\n")
	for i, f := range files {
		sep := ","
		if i == len(files)-1 {
			sep = ""
		}
		fmt.Fprintf(out, "  (%s, %s)%s\n", leanStr(f), leanBool(res[f]), sep)
	}
	out.WriteString("]\n\n")
	fmt.Fprintf(out, "def templateNote : String := %s\n\n", leanStr(note))
}

// genMutexRegions: in every FilterN.Query the fields generation/rareComp are shared between
// goroutines; collect reads and writes outside the mutex region.
func genMutexRegions(p *pkgFiles, out *strings.Builder) {
	f := p.files["filter_gen.go"]
	type row struct {
		name                        string
		writesOutside, readsOutside int
	}
	var rows []row
	if f == nil {
		problem("filter_gen.go not found")
	} else {
		for _, d := range f.Decls {
			fd, ok := d.(*ast.FuncDecl)
			if !ok || fd.Body == nil || fd.Recv == nil || fd.Name.Name != "Query" {
				continue
			}
			r := row{name: recvName(fd.Recv.List[0].Type) + ".Query"}
			// walk statements in order tracking whether we are between mutex.Lock() and mutex.Unlock()
			var walk func(stmts []ast.Stmt, locked bool) bool
			countAccess := func(n ast.Node, locked bool, isWrite bool) {
				ast.Inspect(n, func(x ast.Node) bool {
					if se, ok := x.(*ast.SelectorExpr); ok {
						if id, ok := se.X.(*ast.Ident); ok && id.Name == "f" && (se.Sel.Name == "generation" || se.Sel.Name == "rareComp") {
							if !locked {
								if isWrite {
									r.writesOutside++
								} else {
									r.readsOutside++
								}
							}
						}
					}
					return true
				})
			}
			walk = func(stmts []ast.Stmt, locked bool) bool {
				for _, s := range stmts {
					txt := src(s)
					switch st := s.(type) {
					case *ast.ExprStmt:
						if txt == "f.mutex.Lock()" {
							locked = true
							continue
						}
						if txt == "f.mutex.Unlock()" {
							locked = false
							continue
						}
						countAccess(st, locked, false)
					case *ast.AssignStmt:
						for _, l := range st.Lhs {
							countAccess(l, locked, true)
						}
						for _, rr := range st.Rhs {
							countAccess(rr, locked, false)
						}
					case *ast.IfStmt:
						if st.Init != nil {
							countAccess(st.Init, locked, false)
						}
						countAccess(st.Cond, locked, false)
						locked = walk(st.Body.List, locked)
						if eb, ok := st.Else.(*ast.BlockStmt); ok {
							locked = walk(eb.List, locked)
						}
					case *ast.BlockStmt:
						locked = walk(st.List, locked)
					default:
						countAccess(s, locked, false)
					}
				}
				return locked
			}
			walk(fd.Body.List, false)
			rows = append(rows, r)
		}
	}
	out.WriteString("/-- `FilterN.Query`: accesses to the shared fields `generation`/`rareComp` outside the mutex\n    region (writes, reads) -/\ndef mutexRegions : List (String × Nat × Nat) := [\n")
	for i, r := range rows {
		sep := ","
		if i == len(rows)-1 {
			sep = ""
		}
		fmt.Fprintf(out, "  (%s, %d, %d)%s\n", leanStr(r.name), r.writesOutside, r.readsOutside, sep)
	}
	out.WriteString("]\n\n")
}

// genQueryLockCalls: queries may be created and closed from several goroutines; every function of the
// filter/query files that takes or releases a lock bit must do so through the mutex-protected
// `lockSafe`/`unlockSafe` (the plain `lock`/`unlock` are for the single-goroutine structural operations).
func genQueryLockCalls(p *pkgFiles, out *strings.Builder) {
	type row struct{ fn, callee string }
	var rows []row
	var names []string
	for name := range p.files {
		if strings.HasSuffix(name, "_test.go") {
			continue
		}
		if strings.HasPrefix(name, "filter") || strings.HasPrefix(name, "query") {
			names = append(names, name)
		}
	}
	sort.Strings(names)
	for _, name := range names {
		for _, d := range p.files[name].Decls {
			fd, ok := d.(*ast.FuncDecl)
			if !ok || fd.Body == nil {
				continue
			}
			fn := fd.Name.Name
			if fd.Recv != nil && len(fd.Recv.List) == 1 {
				fn = recvName(fd.Recv.List[0].Type) + "." + fn
			}
			ast.Inspect(fd.Body, func(n ast.Node) bool {
				call, ok := n.(*ast.CallExpr)
				if !ok {
					return true
				}
				if se, ok := call.Fun.(*ast.SelectorExpr); ok {
					switch se.Sel.Name {
					case "lock", "unlock", "lockSafe", "unlockSafe", "Lock", "Unlock", "LockSafe", "UnlockSafe":
						// the per-filter mutex (`f.mutex.Lock()`) is not the world lock
						if strings.HasSuffix(src(se.X), "mutex") || strings.HasSuffix(src(se.X), "mu") {
							return true
						}
						rows = append(rows, row{name + ":" + fn, se.Sel.Name})
					}
				}
				return true
			})
		}
	}
	out.WriteString("/-- every call that takes or releases a world-lock bit in the filter/query files: (function, callee) -/\ndef queryLockCalls : List (String × String) := [\n")
	for i, r := range rows {
		sep := ","
		if i == len(rows)-1 {
			sep = ""
		}
		fmt.Fprintf(out, "  (%s, %s)%s\n", leanStr(r.fn), leanStr(r.callee), sep)
	}
	out.WriteString("]\n\n")
}

// genEventOrder: position of the removal events relative to the first row mutation in the
// single-entity operations, and of lock/unlock around them.
func genEventOrder(p *pkgFiles, out *strings.Builder) {
	type row struct {
		name string
		seq  []string
	}
	var rows []row
	targets := [][3]string{
		{"world_internal.go", "World", "remove"}, {"world_internal.go", "World", "exchange"},
		{"world_internal.go", "World", "setRelations"}, {"storage.go", "storage", "RemoveEntity"},
		{"world_internal.go", "World", "exchangeBatch"}, {"world_internal.go", "World", "setRelationsBatch"},
		{"world.go", "World", "RemoveEntities"},
	}
	interesting := []struct{ sub, tag string }{
		{".lock()", "lock"}, {".unlock(", "unlock"},
		{"FireRemoveEntityRel(", "fireRemove"}, {"FireRemoveEntity(", "fireRemove"}, {"FireRemove(", "fireRemove"},
		{"FireSetRelations(OnRemoveRelations", "fireRemove"}, {"FireSetRelations(OnAddRelations", "fireAdd"},
		{"FireAdd(", "fireAdd"},
		{".Add(entity)", "mutate"}, {".Remove(index.row)", "mutate"}, {".Reset()", "mutate"},
		{"exchangeTable(", "mutate"}, {"moveEntities(", "mutate"}, {"entityPool.Recycle(", "mutate"},
	}
	for _, t := range targets {
		fd := p.findFunc(t[0], t[1], t[2])
		if fd == nil {
			problem("%s: %s.%s not found", t[0], t[1], t[2])
			continue
		}
		r := row{name: t[1] + "." + t[2]}
		// an unexported helper of World/storage that the operation calls (e.g. an extracted observer loop)
		// is looked into at the point of the call, two levels deep
		helper := func(name string) *ast.FuncDecl {
			if name == "" || (name[0] >= 'A' && name[0] <= 'Z') {
				return nil
			}
			for _, f := range p.files {
				for _, d := range f.Decls {
					if hd, ok := d.(*ast.FuncDecl); ok && hd.Body != nil && hd.Name.Name == name && hd.Recv != nil && len(hd.Recv.List) == 1 {
						if rn := recvName(hd.Recv.List[0].Type); rn == "World" || rn == "storage" {
							return hd
						}
					}
				}
			}
			return nil
		}
		var visit func(body ast.Node, depth int)
		visit = func(body ast.Node, depth int) {
			ast.Inspect(body, func(n ast.Node) bool {
				c, ok := n.(*ast.CallExpr)
				if !ok {
					return true
				}
				s := src(c)
				tagged := false
				for _, it := range interesting {
					if strings.Contains(s, it.sub) {
						tagged = true
					}
				}
				if se, ok := c.Fun.(*ast.SelectorExpr); ok && !tagged && depth < 2 {
					if hd := helper(se.Sel.Name); hd != nil && hd != fd {
						visit(hd.Body, depth+1)
						return true
					}
				}
				for _, it := range interesting {
					if strings.Contains(s, it.sub) && strings.HasPrefix(s[strings.Index(s, it.sub)-min(strings.Index(s, it.sub), 60):], "") {
						// only count the call whose function expression itself contains the marker
						if strings.Contains(src(c.Fun)+"(", strings.TrimSuffix(it.sub, "(")) || strings.Contains(s[:min(len(s), len(src(c.Fun))+40)], it.sub) {
							if len(r.seq) == 0 || r.seq[len(r.seq)-1] != it.tag {
								r.seq = append(r.seq, it.tag)
							}
							break
						}
					}
				}
				return true
			})
		}
		visit(fd.Body, 0)
		rows = append(rows, r)
	}
	out.WriteString("/-- order of lock / removal events / first mutation / addition events / unlock in the operations\n    that emit events (consecutive duplicates collapsed) -/\ndef eventOrder : List (String × List String) := [\n")
	for i, r := range rows {
		sep := ","
		if i == len(rows)-1 {
			sep = ""
		}
		parts := make([]string, len(r.seq))
		for j, s := range r.seq {
			parts[j] = leanStr(s)
		}
		fmt.Fprintf(out, "  (%s, [%s])%s\n", leanStr(r.name), strings.Join(parts, ", "), sep)
	}
	out.WriteString("]\n\n")
}
