package main

import "strings"

// genExtraFacts: further fact tables (mutex regions, event order, template equality) are added
// here as the properties that use them are built.
func genExtraFacts(p *pkgFiles, repo string, out *strings.Builder) {
}
