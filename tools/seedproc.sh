#!/bin/sh
# seedproc.sh <tag> <suffix> <prop>... : confirm the two changes a sub-agent left in /tmp/<tag>-<prop>-out,
# store the confirmed ones as seeded/<prop>-<suffix><n>, run the owning check against each, drop the worktree
cd "$(dirname "$0")/.."
tag=$1; suf=$2; shift 2
for p in "$@"; do
  for n in 1 2; do
    id=$p-$suf$n
    python3 tools/mutant.py verify /tmp/$tag-$p-out $n $p $id 2>&1 | grep -v WARNING > /tmp/$tag-$id-verify.log
    if grep -q '"confirmed": true' /tmp/$tag-$id-verify.log; then
      echo "$id confirmed"
      python3 tools/mutant.py detect $id 2>&1 | grep -v WARNING | sed "s/^/$id detect: /"
    else
      echo "$id NOT confirmed (see /tmp/$tag-$id-verify.log)"
    fi
  done
  git -C /repo worktree remove --force /tmp/$tag-$p 2>/dev/null
done
