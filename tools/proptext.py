"""Manifest wording per property: level text, trusted base note, technique."""
HOOK_COMMITS = []

BASE_NOTE = ("Trusted: Lean 4 kernel; axioms propext, Classical.choice, Quot.sound only (audited per theorem on every run; "
             "`decide +kernel` is kernel evaluation, no native code); tools/extract (Go->Lean expression translator and fact "
             "extractor) with its shape expectations; the correspondence harness, driver and projection (differential: agreement "
             "is shown only on executed runs). Modelled, not verified: unsafe pointer arithmetic, reflect copies, byte layout, "
             "GC, Go memory model, slice aliasing/pointer invalidation on re-allocation; uint32 generation wrap-around and "
             "tables beyond 2^32 rows excluded by hypothesis.")

CORR = (" The hand-written model is tied to /repo on every run by (1) definitions regenerated from the Go source and proved equal "
        "to the model's for all inputs and (2) the correspondence check: the real ecs package and the model's executable "
        "definitions run the same generated operation histories and the property's projection of the traces must agree.")

def T(level, technique, note=BASE_NOTE):
    return {"level": level + CORR, "note": note, "technique": technique}

TEXT = {
 "C01": T("Proved (Lean 4) for tables of any size and any history of table operations: write/read round trip with frame, swap-remove moves only the last row, growth/shrink/bulk moves preserve every row in use, table shape invariant reachable. PARTIAL at world level: the entity-index <-> row bijection across tables (step_refines) is not yet proved; it is covered by the correspondence check on all API paths.",
          "Lean 4 proof of table-level invariants and frame lemmas + regenerated Extend condition + model/implementation correspondence"),
 "C02": T("Proved over ALL histories of pool operations of any length and recycle order: free-list invariant, freshness of every returned handle, exact Alive for every issued handle, dead-stays-dead, count = creations - removals, Reset kills the previous epoch's handles.",
          "Lean 4 proof: invariant by induction over operation histories with ghost issued/live sets + correspondence on raw handles"),
 "C03": T("Proved for all masks/filters: the model's filter test equals the regenerated filter.matches and has the documented set-level meaning (with/without/exclusive); the per-target table lookup is complete and duplicate-free under the index invariant. PARTIAL: the cursor machine's drain = selected rows theorem is not yet proved; iteration, Count and EntityAt are compared with the model and checked for internal consistency (no duplicates, Count = visits, EntityAt = visit order) on generated histories.",
          "Lean 4 proof of selection logic over regenerated definitions + index-lookup completeness + correspondence and self-checks on query results"),
 "C04": T("Proved: the per-archetype relation index invariant (exactly the active tables per target, no stale entries) is preserved by table registration, recycling, the Shrink free path, and the free-all-then-drop-key pattern of target cleanup; freeing alone (the repaired defect D1) provably breaks it. PARTIAL: the world-level statement (targets zero-or-alive in every reachable state) relies on the correspondence check.",
          "Lean 4 proof of index invariants for every index mutation + correspondence on relation targets and relation queries"),
 "C05": T("Proved: slice and index map of tableIDs (the cached table lists) stay in step under append and swap-remove for all inputs; lookup completeness of the uncached path. PARTIAL: equality of cached and uncached selections in every reachable state (I11) is checked by correspondence with twin registered/unregistered filters, not yet proved.",
          "Lean 4 proof of tableIDs well-formedness + correspondence on cached vs. uncached queries"),
 "C07": T("Proved over ALL histories of lock/unlock/reset: the lock mask equals the set of outstanding bits, a new lock is fresh, locking succeeds iff fewer than 64 are outstanding, unlock succeeds iff the bit is outstanding, unlocked exactly when all are returned; every structural operation of the model on a locked world panics and returns the identical state; regenerated fact: checkLocked() is the first statement of all structural entry points.",
          "Lean 4 proof: lock-bit machine invariant by induction over histories + per-operation locked=>unchanged + extracted lock-first facts + correspondence"),
 "C08": T("Proved for ALL masks, all observer specifications and all register/unregister orders: each per-observer predicate equals the documented firing rule (Spec.fires), the union-based early-outs never suppress an observer that should fire (under the aggregate invariant, itself preserved by add/remove/reset), hence the set of callbacks is independent of which other observers are registered; predicates and early-outs are proved equal to the ones regenerated from events.go on every run.",
          "Lean 4 proof over regenerated observer predicates (decision logic stated outright) + aggregate invariant + correspondence on callback multisets"),
 "C10": T("Proved: every checked single-entity operation of the model on a dead handle, with no components/relations, with a present/missing component, or on a locked world returns panic with exactly the state it was called on; regenerated facts decided in Lean: every Entity-taking method of all arities checks Alive (or delegates to a checked core) before its first index read, and every structural entry point checks the lock first.",
          "Lean 4 proof of rejection-without-effect + decided extracted API-surface facts + correspondence with stale handles"),
 "C11": T("Proved for all table histories: the zero-tail invariant (every cell outside a live row is zero, also in free/recycled tables) is preserved by add/alloc/remove/reset/addAll/adjustCapacity/shrink, so a component added without value reads zero; values survive moves/growth/shrink. PARTIAL: write barriers, GC liveness and unsafe addressing are runtime behaviour outside any Lean model; pointer-bearing components are exercised with self-checking payloads by the harness only.",
          "Lean 4 proof of the table shape/zero-tail invariant + correspondence with uninitialised adds and self-checking pointer payloads"),
 "C12": T("Proved: the regenerated list of map-range sites equals the two loops of archetype.FreeTable, whose effect is pointwise per key (order independent); the model is a function of the history. PARTIAL: cross-process equality of the implementation is observed (same op file in several processes), not proved.",
          "Decided extracted fact (map ranges) + order-independence lemma + repeated-execution comparison"),
 "C15": T("Proved: Shrink decisions equal the regenerated Go conditions; shrinking changes no row in use, yields len <= cap <= max(initial, capPow2 len) per table, is idempotent per table (convergence), keeps the table shape and the relation index invariants when freeing empty tables, and is rejected on a locked world. PARTIAL: the whole-world abstraction-unchanged statement relies on correspondence.",
          "Lean 4 proof over regenerated shrink conditions + table/index invariants + correspondence (snapshots and queries after Shrink)"),
 "C16": T("Proved: the observer-reset loop (regenerated bound) visits every registered event type for all 256 types; the pool after Reset equals the initial pool (same future handles) and no old handle is alive; lock cleared; aggregates invariant holds after reset. PARTIAL: equivalence of all later histories with a fresh world relies on correspondence.",
          "Lean 4 proof over regenerated loop bound + pool/lock/observer reset lemmas + correspondence after Reset"),
 "C17": T("Proved for all 64-bit (id, generation) pairs and all byte strings: binary round trip, AppendBinary, rejection exactly of lengths != 8, injectivity, JSON array round trip (kernel-only bit-vector proofs); dump/load: loading the dump of any pool into an empty world gives the same Alive answers for every handle of the source epoch and the same handles for any number of subsequent creations.",
          "Lean 4 proof: bit-vector round trips + pool determinism through the monadic LoadEntities model + correspondence on dump/load"),
 "C18": T("Proved: for EVERY registered count 0..256 the regenerated toTypes index arithmetic stays inside the mask words and enumerates exactly IDs 0..n-1 (kernel evaluation over the whole finite table), so component lists are the ascending set bits; registration is sequential, full/locked registration panics without consuming an ID; resources behave as a partial map.",
          "Lean 4 proof by exhaustive kernel evaluation over regenerated arithmetic + registry lemmas + correspondence with registries filled to the limit"),
 "C19": T("Proved for all worlds and all earlier statistics objects compatible with the world's archetype prefix: the incrementally updated statistics equal the fresh computation (any old table-list length), along any history of Stats calls; internal consistency of all figures (sums, products, used+recycled=total).",
          "Lean 4 proof: incremental = fresh by list algebra + history induction + correspondence on the Stats structure"),
}
