"""Manifest wording per property: level text, trusted base note, technique."""
HOOK_COMMITS = []

BASE_NOTE = ("Trusted: Lean 4 kernel; axioms propext, Classical.choice, Quot.sound only (audited per theorem on every run); "
             "tools/extract (Go->Lean expression translator and fact extractor); the correspondence harness, driver and projection "
             "(differential: agreement is shown only on executed runs). Modelled, not verified: unsafe pointer arithmetic, reflect "
             "copies, byte layout, GC, Go memory model; uint32 generation wrap-around excluded by hypothesis.")

TEXT = {
 "C02": {
  "level": "Machine-checked proof (Lean 4, kernel-only axioms) over ALL histories of pool operations of any length and any recycle order: the free-list invariant of the entity pool, freshness of every returned handle, exactness of Alive for every issued handle, dead-stays-dead, count = creations - removals, and that Reset kills the handles of the previous epoch. The model's pool code is tied to pool.go by the correspondence check (raw handles, Alive of issued handles and Stats are compared on generated histories).",
  "note": BASE_NOTE,
  "technique": "Lean 4 proof: invariant by induction over operation histories (ghost issued/live sets) + model/implementation correspondence on generated histories",
 },
}
